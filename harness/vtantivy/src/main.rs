//! C16 (token stream): tokens of the Tantivy adapter tile the original text and break exactly
//! where the core pipeline (normalise, predict, line-break filter, configured filters) breaks.

#[path = "../../vmon/src/ctx.rs"]
mod ctx;

use tantivy::tokenizer::{TokenStream, Tokenizer};
use vaporetto::{CharacterBoundary, CharacterType, Model, Predictor, Sentence};
use vaporetto_rules::sentence_filters::{ConcatGraphemeClustersFilter, KyteaWsConstFilter, SplitLinebreaksFilter};
use vaporetto_rules::string_filters::KyteaFullwidthFilter;
use vaporetto_rules::{SentenceFilter, StringFilter};
use vaporetto_tantivy::VaporettoTokenizer;
use vgen::gen::{gen_case, GenOpts, TagMode};
use vgen::json::{clip, J};
use vgen::rng::{case_seed, fnv, Rng};
use vgen::text::to_string;

use ctx::{guard, panic_site, Ctx};

#[derive(Debug, Clone, PartialEq, Eq)]
struct Tok {
    from: usize,
    to: usize,
    text: String,
    position: usize,
}

fn core_breaks(model_bytes: &[u8], wsconst: &str, text: &str) -> Result<Vec<usize>, String> {
    // byte offsets (in the ORIGINAL text) after which the core pipeline breaks
    let (model, _) = Model::read_slice(model_bytes).map_err(|e| format!("{e}"))?;
    let p = Predictor::new(model, false).map_err(|e| format!("{e}"))?;
    let norm = KyteaFullwidthFilter.filter(text);
    let mut s = Sentence::from_raw(norm).map_err(|e| format!("{e}"))?;
    p.predict(&mut s);
    SplitLinebreaksFilter.filter(&mut s);
    for c in wsconst.chars() {
        let f: Box<dyn SentenceFilter> = match c {
            'D' => Box::new(KyteaWsConstFilter::new(CharacterType::Digit)),
            'R' => Box::new(KyteaWsConstFilter::new(CharacterType::Roman)),
            'H' => Box::new(KyteaWsConstFilter::new(CharacterType::Hiragana)),
            'T' => Box::new(KyteaWsConstFilter::new(CharacterType::Katakana)),
            'K' => Box::new(KyteaWsConstFilter::new(CharacterType::Kanji)),
            'O' => Box::new(KyteaWsConstFilter::new(CharacterType::Other)),
            _ => Box::new(ConcatGraphemeClustersFilter),
        };
        f.filter(&mut s);
    }
    let offs: Vec<usize> = text.char_indices().map(|(i, _)| i).skip(1).collect();
    if offs.len() != s.boundaries().len() {
        return Err("normalised text has a different number of characters".into());
    }
    let mut out: Vec<usize> = offs.iter().zip(s.boundaries()).filter(|(_, &b)| b == CharacterBoundary::WordBoundary).map(|(&o, _)| o).collect();
    out.push(text.len());
    Ok(out)
}

fn main() {
    let args: Vec<String> = std::env::args().collect();
    let mut seed = 1u64;
    let (mut from, mut to) = (0u64, 1u64);
    let mut events = String::new();
    let mut journal: Option<String> = None;
    let mut i = 2;
    while i < args.len() {
        let v = args.get(i + 1).cloned().unwrap_or_default();
        match args[i].as_str() {
            "--seed" => seed = v.parse().unwrap(),
            "--from" => from = v.parse().unwrap(),
            "--to" => to = v.parse().unwrap(),
            "--events" => events = v,
            "--journal" => journal = Some(v),
            _ => {}
        }
        i += 2;
    }
    ctx::install_panic_hook();
    let mut ctx = Ctx::new(&events, journal.as_deref(), seed);
    const WS: [char; 7] = ['D', 'R', 'H', 'T', 'K', 'O', 'G'];
    for k in from..to {
        ctx.begin_case(k);
        let mut rng = Rng::new(case_seed(seed, "C16t", k));
        let mut o = GenOpts::default();
        o.tags = TagMode::Never;
        o.max_text_len = 60;
        o.max_window = if k % 4 == 0 { 12 } else { 8 };
        let case = gen_case(&mut rng, &o);
        let bytes = case.model.to_bytes();
        let mut wsconst: String = (0..rng.below(4)).map(|_| WS[rng.below(7)]).collect();
        let mut texts: Vec<String> = case.texts.iter().map(|t| to_string(t)).collect();
        if k % 100 == 17 {
            // one token longer than 65 535 bytes: a run of digits kept together by the D filter,
            // and the single-token fallback for a text the core rejects
            if !wsconst.contains('D') {
                wsconst.push('D');
            }
            texts.push("7".repeat(rng.urange(65_531, 70_000)));
            // a document of more than 64 KiB made of short lines (filters and context reach across line breaks)
            texts.push("」\n「あ".repeat(rng.urange(9_000, 11_000)));
            texts.push(format!("{}\0", "あ".repeat(rng.urange(21_900, 23_000))));
            ctx.count("texts_with_token_longer_than_65530_bytes", 2);
        }
        {
            // characters whose normalised form has another character type (the four dashes -> katakana ー) next to kana
            let a = vgen::text::alphabet_norm_heavy(&mut rng, 5, k % 2 == 0);
            for _ in 0..2 {
                let n = rng.urange(2, 24);
                texts.push(to_string(&vgen::text::text_from(&mut rng, &a, n)));
            }
            texts.push("ラ－メン―を–食べ─る".to_string());
        }
        // near-blank documents with Windows line endings (CR LF is one grapheme cluster of two single-byte characters)
        for t in ["\r\n", " \r\n \r\n", "#\r\n$;\r\n", "\r\n\r\n~"] {
            texts.push(t.to_string());
        }
        // texts whose byte length is exactly three times their character count without being all 3-byte
        for t in ["a𠮷𠮷", "𠮷é", "x𠮷𠮷野家", "\n𠮷𠮷", "ab𠮷𠮷𠮷𠮷人"] {
            texts.push(t.to_string());
        }
        // a text that starts with the model's first character n-gram (patterns overhanging the left edge)
        if let Some(g) = case.model.char_ngram_model.first() {
            texts.push(format!("{}{}", g.ngram, texts[0]));
        }
        texts.push(String::new());
        texts.push("テ\u{3099}ータは\u{3099}か\u{3099}ハ\u{309a}ン".to_string());
        texts.push(format!("\u{feff}{}", texts[0]));
        texts.push("\u{feff}".to_string());
        texts.push("abc-XYZ 12.5% ｱｲｳ\r\nﾊﾟ".to_string());
        texts.push(format!("{}\n{}", texts[0], texts[0]));
        if rng.chance(1, 3) {
            texts.push(format!("{}\0{}", texts[0], "x"));
        }
        // width variants right after each other: different originals with the same normalised form
        let mut seq: Vec<String> = vec![];
        for t in &texts {
            seq.push(t.clone());
            if rng.chance(1, 2) {
                seq.push(KyteaFullwidthFilter.filter(t.as_str()));
                if rng.chance(1, 2) {
                    seq.push(t.clone());
                }
            }
        }
        seq.push("123456円abc".to_string());
        seq.push("１２３４５６円ａｂｃ".to_string());
        let texts = seq;
        let via_serialised = rng.chance(1, 3);
        // ONE tokenizer object serves all texts of the case, as an indexer would use it
        let reuse = rng.chance(2, 3);
        let shared = guard(|| -> Result<VaporettoTokenizer, String> {
            let (model, _) = Model::read_slice(&bytes).map_err(|e| format!("{e}"))?;
            if via_serialised {
                let p = Predictor::new(model, false).map_err(|e| format!("{e}"))?;
                let ser = p.serialize_to_vec().map_err(|e| format!("{e}"))?;
                // the serialised bytes must outlive the tokenizer only during construction
                let (t, _) = unsafe { VaporettoTokenizer::deserialize_unchecked(&ser, &wsconst) }.map_err(|e| format!("{e}"))?;
                Ok(t)
            } else {
                VaporettoTokenizer::new(model, &wsconst).map_err(|e| format!("{e}"))
            }
        });
        let mut shared = match shared {
            Ok(Ok(t)) => Some(t),
            _ => None,
        };
        ctx.flag("cases_reusing_one_tokenizer_for_all_texts", reuse && shared.is_some());
        for text in &texts {
            let detail = |extra: Vec<(&str, J)>| {
                let mut kv = vec![("text", J::s(clip(text, 200))), ("wsconst", J::s(&wsconst)), ("model_hex", J::hex(&bytes[..bytes.len().min(4096)])), ("model", J::s(case.model.summary()))];
                kv.extend(extra);
                J::obj(kv)
            };
            let r = guard(|| -> Result<Vec<Tok>, String> {
                if reuse {
                    if let Some(tk) = shared.as_mut() {
                        let mut st = tk.token_stream(text);
                        let mut out = vec![];
                        let mut guard_n = 0;
                        while st.advance() {
                            let t = st.token();
                            out.push(Tok { from: t.offset_from, to: t.offset_to, text: t.text.clone(), position: t.position });
                            guard_n += 1;
                            if guard_n > text.len() + 2 {
                                return Err("token stream does not terminate".into());
                            }
                        }
                        return Ok(out);
                    }
                }
                let (model, _) = Model::read_slice(&bytes).map_err(|e| format!("{e}"))?;
                let mut tk = if via_serialised {
                    let p = Predictor::new(model, false).map_err(|e| format!("{e}"))?;
                    let ser = p.serialize_to_vec().map_err(|e| format!("{e}"))?;
                    let (t, rest) = unsafe { VaporettoTokenizer::deserialize_unchecked(&ser, &wsconst) }.map_err(|e| format!("{e}"))?;
                    if !rest.is_empty() {
                        return Err("deserialize_unchecked left bytes".into());
                    }
                    t
                } else {
                    VaporettoTokenizer::new(model, &wsconst).map_err(|e| format!("{e}"))?
                };
                let mut st = tk.token_stream(text);
                let mut out = vec![];
                let mut guard_n = 0;
                while st.advance() {
                    let t = st.token();
                    out.push(Tok { from: t.offset_from, to: t.offset_to, text: t.text.clone(), position: t.position });
                    guard_n += 1;
                    if guard_n > text.len() + 2 {
                        return Err("token stream does not terminate".into());
                    }
                }
                Ok(out)
            });
            ctx.eval(1);
            let toks = match r {
                Ok(Ok(t)) => t,
                Ok(Err(e)) => {
                    ctx.violation("C16:tokenizer_construction_or_stream_failed", detail(vec![("error", J::s(&e))]));
                    continue;
                }
                Err(p) => {
                    let nul = text.contains('\0');
                    ctx.violation(&format!("C16:token_stream_panicked{}:{}", if nul { "_on_text_with_NUL" } else { "" }, panic_site(&p)), detail(vec![("panic", J::s(&p))]));
                    continue;
                }
            };
            ctx.flag("texts_empty", text.is_empty());
            ctx.flag("texts_with_cr_or_lf", text.contains('\n') || text.contains('\r'));
            ctx.flag("texts_changed_by_normaliser", KyteaFullwidthFilter.filter(text.as_str()) != *text);
            ctx.flag("texts_with_multibyte", text.len() != text.chars().count());
            ctx.flag("texts_with_nul", text.contains('\0'));
            ctx.count("tokens_checked", toks.len() as u64);
            // tiling, char boundaries, substring, positions
            let mut pos = 0usize;
            let mut bad: Option<String> = None;
            for (i, t) in toks.iter().enumerate() {
                if t.from != pos {
                    bad = Some(format!("token {i} starts at {} but the previous one ended at {pos}", t.from));
                    break;
                }
                if t.to <= t.from || t.to > text.len() || !text.is_char_boundary(t.from) || !text.is_char_boundary(t.to) {
                    bad = Some(format!("token {i} has offsets {}..{} (text length {})", t.from, t.to, text.len()));
                    break;
                }
                if t.text != text[t.from..t.to] {
                    bad = Some(format!("token {i} text {:?} != original substring {:?}", t.text, &text[t.from..t.to]));
                    break;
                }
                if t.position != i {
                    bad = Some(format!("token {i} has position {}", t.position));
                    break;
                }
                pos = t.to;
            }
            if bad.is_none() && pos != text.len() {
                bad = Some(format!("tokens end at {pos} but the text has {} bytes", text.len()));
            }
            if let Some(b) = bad {
                ctx.violation("C16:tokens_do_not_tile_the_original_text", detail(vec![("what", J::s(&b)), ("tokens", J::s(clip(&format!("{:?}", toks), 600)))]));
                continue;
            }
            // breaks == core pipeline
            if text.is_empty() {
                continue;
            }
            if text.contains('\0') {
                // the core pipeline rejects such text: there is no segmentation to compare with
                continue;
            }
            match guard(|| core_breaks(&bytes, &wsconst, text)) {
                Ok(Ok(want)) => {
                    let got: Vec<usize> = toks.iter().map(|t| t.to).collect();
                    if got != want {
                        ctx.violation("C16:token_breaks_differ_from_core_pipeline", detail(vec![("expected_break_offsets", J::ints(&want)), ("observed_break_offsets", J::ints(&got))]));
                    } else {
                        ctx.count("streams_compared_with_core_pipeline", 1);
                    }
                }
                Ok(Err(e)) => ctx.violation("C16:core_pipeline_failed", detail(vec![("error", J::s(&e))])),
                Err(p) => ctx.violation(&format!("C16:core_pipeline_panicked:{}", panic_site(&p)), detail(vec![("panic", J::s(&p))])),
            }
        }
        ctx.flag("tokenizers_from_serialised_predictor", via_serialised);
        ctx.flag("wsconst_with_grapheme_filter", wsconst.contains('G'));
        ctx.flag("wsconst_empty", wsconst.is_empty());
        ctx.nontrivial(fnv(&bytes) ^ fnv(format!("{:?}{}", texts, wsconst).as_bytes()));
        if ctx.want_sample() {
            ctx.sample(J::obj(vec![("model", J::s(case.model.summary())), ("wsconst", J::s(&wsconst)), ("texts", J::A(texts.iter().take(4).map(|t| J::s(clip(t, 40))).collect()))]));
        }
    }
    ctx.finish();
}
