//! Worker-side event log, case journal, counters and panic capture.

use std::cell::RefCell;
use std::collections::BTreeMap;
use std::fs::File;
use std::io::{BufWriter, Write};
use std::panic::{self, AssertUnwindSafe};

use vgen::json::J;

pub struct Ctx {
    out: BufWriter<File>,
    journal: Option<File>,
    counters: BTreeMap<String, u64>,
    digests: Vec<u64>,
    pub evals: u64,
    pub cases: u64,
    nviol: usize,
    nsample: usize,
    pub max_samples: usize,
    pub cur_case: u64,
    pub seed: u64,
    pub tier_thorough: bool,
    pub bins: String,
    pub scratch: String,
    sigs_seen: BTreeMap<String, usize>,
    /// C18 mode: only violations of unchecked-code preconditions count (see `violation`).
    pub safety_only: bool,
    /// Miri-sized inputs.
    pub tiny: bool,
}

thread_local! {
    static LAST_PANIC: RefCell<Option<String>> = const { RefCell::new(None) };
}

pub fn install_panic_hook() {
    panic::set_hook(Box::new(|info| {
        let loc = info
            .location()
            .map(|l| {
                let f = l.file();
                let f = f.rsplit_once("/repo/").map(|x| x.1).unwrap_or(f);
                format!("{}:{}", f, l.line())
            })
            .unwrap_or_else(|| "?".to_string());
        let msg = if let Some(s) = info.payload().downcast_ref::<&str>() {
            (*s).to_string()
        } else if let Some(s) = info.payload().downcast_ref::<String>() {
            s.clone()
        } else {
            "?".to_string()
        };
        // everything goes to the worker's stderr file (first 40 per process); a panic located in the
        // harness itself is labelled so that the driver never mistakes it for a property violation
        static SHOWN: std::sync::atomic::AtomicUsize = std::sync::atomic::AtomicUsize::new(0);
        if SHOWN.fetch_add(1, std::sync::atomic::Ordering::Relaxed) < 40 {
            let harness = loc.starts_with("vgen/") || loc.starts_with("vmon/") || loc.starts_with("vfeat/") || loc.starts_with("vtantivy/") || loc.contains("/harness/");
            eprintln!("{} at {loc}: {msg}", if harness { "HARNESS PANIC" } else { "PANIC" });
        }
        LAST_PANIC.with(|p| *p.borrow_mut() = Some(format!("{loc}: {msg}")));
    }));
}

/// Runs `f`, turning a panic into `Err("file:line: message")`.
pub fn guard<T>(f: impl FnOnce() -> T) -> Result<T, String> {
    match panic::catch_unwind(AssertUnwindSafe(f)) {
        Ok(v) => Ok(v),
        Err(_) => Err(LAST_PANIC.with(|p| p.borrow_mut().take()).unwrap_or_else(|| "panic".into())),
    }
}

/// "file:line" part of a guard() error (for signatures).
pub fn panic_site(msg: &str) -> String {
    let mut it = msg.splitn(3, ':');
    match (it.next(), it.next()) {
        (Some(f), Some(l)) => format!("{f}:{l}"),
        _ => msg.to_string(),
    }
}

impl Ctx {
    pub fn new(events: &str, journal: Option<&str>, seed: u64) -> Self {
        Ctx {
            out: BufWriter::new(File::create(events).expect("events file")),
            journal: journal.map(|j| File::create(j).expect("journal")),
            counters: BTreeMap::new(),
            digests: vec![],
            evals: 0,
            cases: 0,
            nviol: 0,
            nsample: 0,
            max_samples: 3,
            cur_case: 0,
            seed,
            tier_thorough: false,
            bins: String::new(),
            scratch: String::new(),
            sigs_seen: BTreeMap::new(),
            safety_only: false,
            tiny: false,
        }
    }

    pub fn begin_case(&mut self, k: u64) {
        self.cur_case = k;
        self.cases += 1;
        if let Some(j) = self.journal.as_mut() {
            use std::io::{Seek, SeekFrom};
            let _ = j.seek(SeekFrom::Start(0));
            let _ = writeln!(j, "{k:020}");
            let _ = j.flush();
        }
    }

    pub fn count(&mut self, name: &str, n: u64) {
        if n != 0 {
            *self.counters.entry(name.to_string()).or_insert(0) += n;
        } else {
            self.counters.entry(name.to_string()).or_insert(0);
        }
    }

    pub fn counter(&self, name: &str) -> u64 {
        self.counters.get(name).copied().unwrap_or(0)
    }

    pub fn flag(&mut self, name: &str, b: bool) {
        self.count(name, u64::from(b));
    }

    pub fn eval(&mut self, n: u64) {
        self.evals += n;
    }

    /// Records the digest of a non-trivial case (distinct digests are counted by the driver).
    pub fn nontrivial(&mut self, digest: u64) {
        self.digests.push(digest);
        if self.digests.len() >= 4096 {
            self.flush_digests();
        }
    }

    fn flush_digests(&mut self) {
        if self.digests.is_empty() {
            return;
        }
        let mut s = String::from("{\"t\":\"d\",\"h\":[");
        for (i, d) in self.digests.iter().enumerate() {
            if i != 0 {
                s.push(',');
            }
            s.push_str(&format!("\"{d:016x}\""));
        }
        s.push_str("]}");
        let _ = writeln!(self.out, "{s}");
        self.digests.clear();
    }

    pub fn violation(&mut self, sig: &str, detail: J) {
        let mut sig = sig.to_string();
        if self.safety_only {
            // The unsafe-surface workload re-uses the behavioural monitors; under C18 only failed
            // debug assertions guarding unchecked code, failed UB-precondition checks and invalid
            // UTF-8 count. Everything else belongs to the property whose monitor raised it.
            let panic = detail.get("panic").and_then(|p| p.as_str()).unwrap_or("");
            let safety = sig.contains("utf8")
                || panic.contains("assertion failed")
                || panic.contains("unsafe precondition")
                || panic.contains("is_char_boundary")
                // arithmetic overflow is checked only in this build; in a release build the wrapped
                // value would reach the unchecked index / length operations next to it
                || (panic.contains("attempt to") && panic.contains("overflow"));
            if !safety {
                self.count("behavioural_violations_left_to_their_own_property", 1);
                return;
            }
            let rest = sig.split_once(':').map(|x| x.1.to_string()).unwrap_or(sig.clone());
            sig = format!("C18:{rest}");
        }
        let sig = sig.as_str();
        let n = self.sigs_seen.entry(sig.to_string()).or_insert(0);
        *n += 1;
        if *n > 3 {
            // keep the log small: count only
            self.count(&format!("violations_suppressed::{sig}"), 1);
            return;
        }
        self.nviol += 1;
        let ev = J::obj(vec![
            ("t", J::s("violation")),
            ("sig", J::s(sig)),
            ("case", J::i(self.cur_case)),
            ("seed", J::i(self.seed)),
            ("detail", detail),
        ]);
        let _ = writeln!(self.out, "{}", ev.to_line());
        let _ = self.out.flush();
    }

    pub fn want_sample(&self) -> bool {
        self.nsample < self.max_samples
    }

    pub fn sample(&mut self, j: J) {
        if self.nsample < self.max_samples {
            self.nsample += 1;
            let ev = J::obj(vec![("t", J::s("sample")), ("case", J::i(self.cur_case)), ("sample", j)]);
            let _ = writeln!(self.out, "{}", ev.to_line());
        }
    }

    pub fn note(&mut self, key: &str, j: J) {
        let ev = J::obj(vec![("t", J::s("note")), ("key", J::s(key)), ("value", j)]);
        let _ = writeln!(self.out, "{}", ev.to_line());
    }

    pub fn finish(mut self) {
        self.flush_digests();
        let counters = J::O(self.counters.iter().map(|(k, v)| (k.clone(), J::i(*v))).collect());
        let ev = J::obj(vec![
            ("t", J::s("done")),
            ("cases", J::i(self.cases)),
            ("evals", J::i(self.evals)),
            ("violations", J::i(self.nviol)),
            ("counters", counters),
        ]);
        let _ = writeln!(self.out, "{}", ev.to_line());
        let _ = self.out.flush();
    }
}
