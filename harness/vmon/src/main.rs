//! Monitor worker: `vmon <workload> --seed S --from I --to J --events FILE [--journal FILE]
//! [--tier quick|thorough] [--bins DIR] [--scratch DIR] [--tiny]`.
//! Case k depends on (seed, workload, k) only, so any case can be replayed alone.

mod ctx;
#[cfg(feature = "cli")]
mod p_cli;
mod p_filters;
mod p_history;
mod p_kytea;
mod p_model;
mod p_score;
mod p_sentence;
mod p_threads;
mod p_unsafe;
#[cfg(feature = "train")]
mod p_train;
mod sut;

use ctx::Ctx;

fn main() {
    let args: Vec<String> = std::env::args().collect();
    if args.len() < 2 {
        eprintln!("usage: vmon <workload> --seed S --from I --to J --events FILE ...");
        std::process::exit(64);
    }
    let workload = args[1].clone();
    let mut seed = 1u64;
    let mut from = 0u64;
    let mut to = 1u64;
    let mut events = String::new();
    let mut journal: Option<String> = None;
    let mut tier = "quick".to_string();
    let mut bins = String::new();
    let mut scratch = String::new();
    let mut tiny = false;
    let mut threads = 8usize;
    let mut i = 2;
    while i < args.len() {
        let a = args[i].as_str();
        let v = args.get(i + 1).cloned().unwrap_or_default();
        match a {
            "--seed" => seed = v.parse().expect("seed"),
            "--from" => from = v.parse().expect("from"),
            "--to" => to = v.parse().expect("to"),
            "--events" => events = v,
            "--journal" => journal = Some(v),
            "--tier" => tier = v,
            "--bins" => bins = v,
            "--scratch" => scratch = v,
            "--threads" => threads = v.parse().expect("threads"),
            "--tiny" => {
                tiny = true;
                i += 1;
                continue;
            }
            _ => {
                eprintln!("unknown argument {a}");
                std::process::exit(64);
            }
        }
        i += 2;
    }
    ctx::install_panic_hook();
    let mut ctx = Ctx::new(&events, journal.as_deref(), seed);
    ctx.tier_thorough = tier == "thorough";
    ctx.tiny = tiny;
    ctx.bins = bins;
    ctx.scratch = scratch;
    match workload.as_str() {
        "C01" => p_score::run_c01(&mut ctx, from, to, tiny),
        "C06" => {
            p_score::ALLOW_BIG_TAGSET.store(true, std::sync::atomic::Ordering::Relaxed);
            p_score::run_c06(&mut ctx, from, to, tiny)
        }
        "C14" => {
            p_score::ALLOW_BIG_PREDICTOR.store(true, std::sync::atomic::Ordering::Relaxed);
            p_score::run_c14(&mut ctx, from, to, tiny)
        }
        "C07" => p_model::run_c07(&mut ctx, from, to),
        "C19lib" => p_model::run_c19lib(&mut ctx, from, to),
        "C08h" => p_history::run_c08(&mut ctx, from, to),
        "C05p" => p_history::run_c05p(&mut ctx, from, to),
        "C15" => p_filters::run_c15(&mut ctx, from, to),
        "C16n" => p_filters::run_c16n(&mut ctx, from, to),
        "C16s" => p_filters::run_c16s(&mut ctx, from, to),
        #[cfg(feature = "train")]
        "C09" => p_train::run_c09(&mut ctx, from, to),
        #[cfg(feature = "train")]
        "C10" => p_train::run_c10(&mut ctx, from, to),
        #[cfg(feature = "train")]
        "C11" => p_train::run_c11(&mut ctx, from, to),
        #[cfg(feature = "train")]
        "C12" => p_train::run_c12(&mut ctx, from, to),
        "C17" => p_kytea::run_c17(&mut ctx, from, to),
        #[cfg(feature = "cli")]
        "C19tool" => p_cli::run_c19tool(&mut ctx, from, to),
        #[cfg(feature = "cli")]
        "C20p" => p_cli::run_c20p(&mut ctx, from, to),
        #[cfg(feature = "cli")]
        "C20e" => p_cli::run_c20e(&mut ctx, from, to),
        #[cfg(feature = "train")]
        "C11cli" => p_cli::run_c11cli(&mut ctx, from, to),
        #[cfg(feature = "train")]
        "C13t" => p_train::run_c13t(&mut ctx, from, to),
        #[cfg(feature = "cli")]
        "C17cli" => p_cli::run_c17cli(&mut ctx, from, to),
        #[cfg(feature = "cli")]
        "C07cli" => p_cli::run_c07cli(&mut ctx, from, to),
        "C08t" => p_threads::run_c08t(&mut ctx, from, to, tiny, threads),
        "C18u" => p_unsafe::run_c18u(&mut ctx, from, to, tiny),
        "C02x" => p_sentence::run_c02x(&mut ctx, from, to),
        "C02r" => p_sentence::run_c02r(&mut ctx, from, to),
        "C03" => p_sentence::run_c03(&mut ctx, from, to),
        "C03x" => p_sentence::run_c03x(&mut ctx, from, to),
        "C04" => p_sentence::run_c04(&mut ctx, from, to),
        "C05x" => p_sentence::run_c05x(&mut ctx, from, to),
        "C05r" => p_sentence::run_c05r(&mut ctx, from, to),
        "C05h" => p_sentence::run_c05h(&mut ctx, from, to),
        "C08f" => p_sentence::run_c08f(&mut ctx, from, to),
        w => {
            eprintln!("unknown workload {w}");
            std::process::exit(64);
        }
    }
    ctx.finish();
}
