//! C18: the "unsafe surface" workload. It drives prediction, tagging, all filters, both writers and
//! predictor (de)serialisation through the behavioural monitors of C01/C06/C14/C15/C02/C03/C04/C05,
//! but only precondition violations of unchecked code count here: in the `mon` build std's
//! UB-precondition checks abort the worker (seen by the driver through the case journal), the
//! crate's own debug assertions panic (kept by the safety filter of `Ctx`), ASan / Miri report on
//! their builds, and written buffers are re-validated as UTF-8.

use crate::ctx::Ctx;
use crate::{p_filters, p_history, p_score, p_sentence};

pub fn run_c18u(ctx: &mut Ctx, from: u64, to: u64, tiny: bool) {
    ctx.safety_only = true;
    for k in from..to {
        if tiny {
            // Miri-sized: one kind of sub-workload per case (an interpreted case costs 30-90 s)
            match k % 4 {
                0 => p_score::run_c01(ctx, k, k + 1, true),
                1 => p_score::run_c06(ctx, k, k + 1, true),
                2 => {
                    p_filters::run_c15(ctx, k, k + 1);
                    ctx.begin_case(k);
                    p_sentence::run_c02r(ctx, k * 2, k * 2 + 2);
                    ctx.begin_case(k);
                    p_sentence::run_c03(ctx, k * 2, k * 2 + 2);
                    ctx.begin_case(k);
                    p_sentence::run_c04(ctx, k * 2, k * 2 + 2);
                    ctx.begin_case(k);
                    p_sentence::run_c05r(ctx, k, k + 1);
                }
                _ => p_score::run_c14(ctx, k, k + 1, true),
            }
            ctx.begin_case(k);
            ctx.count("unsafe_surface_rounds", 1);
            continue;
        }
        // sub-workloads use id ranges derived from k; the journal always holds k
        p_score::run_c01(ctx, k, k + 1, false);
        ctx.begin_case(k);
        p_score::run_c06(ctx, k, k + 1, false);
        ctx.begin_case(k);
        p_score::run_c14(ctx, k, k + 1, false);
        ctx.begin_case(k);
        let (a, b) = (k * 8, k * 8 + 8);
        p_filters::run_c15(ctx, a, b);
        ctx.begin_case(k);
        p_sentence::run_c02r(ctx, a, b);
        ctx.begin_case(k);
        p_sentence::run_c03(ctx, a, b);
        ctx.begin_case(k);
        p_sentence::run_c04(ctx, a, b);
        ctx.begin_case(k);
        p_sentence::run_c05r(ctx, a, b);
        ctx.begin_case(k);
        // boundary / tag states reachable through histories of public API calls
        p_history::run_c08(ctx, k * 4, k * 4 + 4);
        ctx.begin_case(k);
        ctx.count("unsafe_surface_rounds", 1);
    }
}
