//! C18: the "unsafe surface" workload. It drives prediction, tagging, all filters, both writers and
//! predictor (de)serialisation through the behavioural monitors of C01/C06/C14/C15/C02/C03/C04/C05,
//! but only precondition violations of unchecked code count here: in the `mon` build std's
//! UB-precondition checks abort the worker (seen by the driver through the case journal), the
//! crate's own debug assertions panic (kept by the safety filter of `Ctx`), ASan / Miri report on
//! their builds, and written buffers are re-validated as UTF-8.

use vaporetto::Sentence;
use vgen::json::{clip, J};
use vgen::rng::{case_seed, Rng};

use crate::ctx::{guard, panic_site, Ctx};
use crate::p_filters::FilterSpec;
use crate::p_sentence::{sut_from, Fmt};
use crate::sut::observe;
use crate::{p_filters, p_history, p_score, p_sentence};

/// Whatever the three parsers ACCEPT is a sentence "reachable through the public API": every filter,
/// writer and iterator runs on it (hostile, valid and mutated input strings).
fn parsed_sentences(ctx: &mut Ctx, k: u64, n: usize) {
    let mut rng = Rng::new(case_seed(ctx.seed, "C18parsed", k));
    const FIXED: &[&str] = &["\\", "a\\", "\\ ", "a/", "a b/\\", " ", "a|", "a-", "a "];
    for i in 0..n {
        let f = [Fmt::Raw, Fmt::Tok, Fmt::Part][i % 3];
        let s: String = if i < FIXED.len() && k % 16 == 0 { FIXED[i].to_string() } else { vgen::text::hostile_string(&mut rng, 12) };
        let r = guard(|| -> Option<()> {
            let mut sent: Sentence<'static, 'static> = sut_from(f, &s).ok()?;
            for spec in [FilterSpec::Linebreaks, FilterSpec::WsConst(5), FilterSpec::WsConst(1), FilterSpec::Graphemes, FilterSpec::Tagger(vec![("a".into(), vec![Some("T".into())])])] {
                spec.build().filter(&mut sent);
                let _ = observe(&sent, false);
            }
            Some(())
        });
        ctx.eval(1);
        match r {
            Ok(Some(())) => ctx.count("accepted_parser_outputs_run_through_all_filters", 1),
            Ok(None) => {}
            Err(p) => ctx.violation(
                &format!("C18:filters_on_parsed_sentence_panicked:{}", panic_site(&p)),
                J::obj(vec![("format", J::s(f.name())), ("input", J::s(clip(&s, 80))), ("panic", J::s(&p))]),
            ),
        }
    }
}

pub fn run_c18u(ctx: &mut Ctx, from: u64, to: u64, tiny: bool) {
    ctx.safety_only = true;
    for k in from..to {
        if tiny {
            // Miri-sized: one kind of sub-workload per case (an interpreted case costs 30-90 s)
            match k % 4 {
                0 => p_score::run_c01(ctx, k, k + 1, true),
                1 => p_score::run_c06(ctx, k, k + 1, true),
                2 => {
                    p_filters::run_c15(ctx, k, k + 1);
                    ctx.begin_case(k);
                    p_sentence::run_c02r(ctx, k * 2, k * 2 + 2);
                    ctx.begin_case(k);
                    p_sentence::run_c03(ctx, k * 2, k * 2 + 2);
                    ctx.begin_case(k);
                    p_sentence::run_c04(ctx, k * 2, k * 2 + 2);
                    ctx.begin_case(k);
                    p_sentence::run_c05r(ctx, k, k + 1);
                    ctx.begin_case(k);
                    parsed_sentences(ctx, k, 3);
                }
                _ => p_score::run_c14(ctx, k, k + 1, true),
            }
            ctx.begin_case(k);
            ctx.count("unsafe_surface_rounds", 1);
            continue;
        }
        // sub-workloads use id ranges derived from k; the journal always holds k
        p_score::run_c01(ctx, k, k + 1, false);
        ctx.begin_case(k);
        p_score::run_c06(ctx, k, k + 1, false);
        ctx.begin_case(k);
        p_score::run_c14(ctx, k, k + 1, false);
        ctx.begin_case(k);
        let (a, b) = (k * 8, k * 8 + 8);
        p_filters::run_c15(ctx, a, b);
        ctx.begin_case(k);
        p_sentence::run_c02r(ctx, a, b);
        ctx.begin_case(k);
        p_sentence::run_c03(ctx, a, b);
        ctx.begin_case(k);
        p_sentence::run_c04(ctx, a, b);
        ctx.begin_case(k);
        p_sentence::run_c05r(ctx, a, b);
        ctx.begin_case(k);
        parsed_sentences(ctx, k, 12);
        ctx.begin_case(k);
        // boundary / tag states reachable through histories of public API calls
        p_history::run_c08(ctx, k * 4, k * 4 + 4);
        ctx.begin_case(k);
        ctx.count("unsafe_surface_rounds", 1);
    }
}
