//! Thin adapters between the abstract test data of `vgen` and the public API of vaporetto.

use std::borrow::Cow;

use vaporetto::{CharacterBoundary, Model, Predictor, Sentence};
use vgen::fmt::RefSentence;
use vgen::json::J;
use vgen::mirror::ModelData;

pub fn model_from(m: &ModelData) -> Result<Model, String> {
    let bytes = m.to_bytes();
    model_from_bytes(&bytes)
}

pub fn model_from_bytes(bytes: &[u8]) -> Result<Model, String> {
    match Model::read_slice(bytes) {
        Ok((model, rest)) => {
            if rest.is_empty() {
                Ok(model)
            } else {
                Err(format!("read_slice left {} bytes", rest.len()))
            }
        }
        Err(e) => Err(format!("read_slice: {e}")),
    }
}

pub fn label_of(b: CharacterBoundary) -> u8 {
    match b {
        CharacterBoundary::NotWordBoundary => 0,
        CharacterBoundary::WordBoundary => 1,
        CharacterBoundary::Unknown => 2,
    }
}

pub fn boundary_of(l: u8) -> CharacterBoundary {
    match l {
        0 => CharacterBoundary::NotWordBoundary,
        1 => CharacterBoundary::WordBoundary,
        _ => CharacterBoundary::Unknown,
    }
}

/// Builds a sentence through the public API only: from_raw, boundaries_mut, reset_tags, tags_mut.
pub fn build_sentence<'b>(rs: &RefSentence) -> Sentence<'static, 'b>
where
    'static: 'b,
{
    let mut s = Sentence::from_raw(rs.text()).expect("from_raw on generated text");
    apply_annotations(&mut s, rs);
    s
}

pub fn apply_annotations<'b>(s: &mut Sentence<'_, 'b>, rs: &RefSentence) {
    for (b, &l) in s.boundaries_mut().iter_mut().zip(&rs.labels) {
        *b = boundary_of(l);
    }
    let k = rs.max_tags();
    s.reset_tags(k);
    let tags = s.tags_mut();
    for (i, ts) in rs.tags.iter().enumerate() {
        for (j, t) in ts.iter().enumerate() {
            // tags arrive as owned strings (parsers) or as borrowed ones (fill_tags, literals): use both
            tags[i * k + j] = t.as_ref().map(|t| if (t.len() + i + j) % 3 == 0 { Cow::Borrowed(intern(t)) } else { Cow::Owned(t.clone()) });
        }
    }
}

/// Leaks one copy of each distinct string (bounded by the workload size of one worker process).
pub fn intern(s: &str) -> &'static str {
    use std::cell::RefCell;
    use std::collections::HashSet;
    thread_local! {
        static POOL: RefCell<HashSet<&'static str>> = RefCell::new(HashSet::new());
    }
    POOL.with(|p| {
        let mut p = p.borrow_mut();
        if let Some(x) = p.get(s) {
            return *x;
        }
        let l: &'static str = Box::leak(s.to_string().into_boxed_str());
        p.insert(l);
        l
    })
}

#[derive(Clone, Debug, PartialEq, Eq)]
pub struct TokenObs {
    pub start: usize,
    pub end: usize,
    pub surface: String,
    pub tags: Vec<Option<String>>,
}

/// Everything observable on a sentence through its public accessors.
#[derive(Clone, Debug, PartialEq, Eq)]
pub struct Obs {
    pub text: String,
    pub types: Vec<u8>,
    pub labels: Vec<u8>,
    pub n_tags: usize,
    pub tags: Vec<Option<String>>,
    pub scores: Vec<i32>,
    pub tokens: Vec<TokenObs>,
    pub token_overflow: bool,
    /// number of tokens reported after one `next()` by an internal-iteration consumer (`count`)
    pub count_after_first: Option<usize>,
    /// span of the last token reported after one `next()` by `last()`
    pub last_after_first: Option<(usize, usize)>,
    pub tokenized: String,
    pub tokenized_utf8_ok: bool,
    pub partial: String,
    pub cands: Option<Vec<Vec<Vec<(String, i32)>>>>,
}

/// Reads every accessor, both writers and the iterator. May panic (call under `guard`).
pub fn observe(s: &Sentence, with_cands: bool) -> Obs {
    let text = s.as_raw_text().to_string();
    let n_chars = text.chars().count();
    let mut tokens = vec![];
    #[allow(unused_mut)]
    let mut cands: Option<Vec<Vec<Vec<(String, i32)>>>> = if with_cands && cfg!(feature = "tag-prediction") { Some(vec![]) } else { None };
    let mut token_overflow = false;
    for (k, t) in s.iter_tokens().enumerate() {
        if k > n_chars + 1 {
            token_overflow = true;
            break;
        }
        tokens.push(TokenObs {
            start: t.start(),
            end: t.end(),
            surface: t.surface().to_string(),
            tags: t.tags().iter().map(|x| x.as_ref().map(|c| c.to_string())).collect(),
        });
        #[cfg(feature = "tag-prediction")]
        if let Some(c) = cands.as_mut() {
            c.push(
                t.tag_candidates()
                    .into_iter()
                    .map(|v| v.into_iter().map(|(t, s)| (t.to_string(), s)).collect())
                    .collect(),
            );
        }
    }
    let (mut count_after_first, mut last_after_first) = (None, None);
    if !token_overflow {
        // consumers that do not go through next() (fold-based: count, last, for_each)
        let mut it = s.iter_tokens();
        it.next();
        count_after_first = Some(it.count());
        let mut it = s.iter_tokens();
        it.next();
        last_after_first = it.last().map(|t| (t.start(), t.end()));
    }
    let mut tokenized = String::from("junk");
    let mut partial = String::from("junk");
    if !token_overflow {
        s.write_tokenized_text(&mut tokenized);
    }
    s.write_partial_annotation_text(&mut partial);
    let tokenized_utf8_ok = std::str::from_utf8(tokenized.as_bytes()).is_ok();
    Obs {
        text,
        types: s.char_types().to_vec(),
        labels: s.boundaries().iter().map(|&b| label_of(b)).collect(),
        n_tags: s.n_tags(),
        tags: s.tags().iter().map(|x| x.as_ref().map(|c| c.to_string())).collect(),
        scores: s.boundary_scores().to_vec(),
        tokens,
        token_overflow,
        count_after_first,
        last_after_first,
        tokenized,
        tokenized_utf8_ok,
        partial,
        cands,
    }
}

impl Obs {
    /// Abstract view (characters, labels, per-character tag lists).
    pub fn to_ref(&self) -> Result<RefSentence, String> {
        let chars: Vec<char> = self.text.chars().collect();
        if self.labels.len() + 1 != chars.len() {
            return Err(format!("boundaries.len()={} but {} characters", self.labels.len(), chars.len()));
        }
        if self.tags.len() != chars.len() * self.n_tags {
            return Err(format!(
                "tags.len()={} != characters({}) x n_tags({})",
                self.tags.len(),
                chars.len(),
                self.n_tags
            ));
        }
        let tags = (0..chars.len())
            .map(|i| self.tags[i * self.n_tags..(i + 1) * self.n_tags].to_vec())
            .collect();
        Ok(RefSentence { chars, labels: self.labels.clone(), tags })
    }

    pub fn to_json(&self) -> J {
        J::obj(vec![
            ("text", J::s(vgen::json::clip(&self.text, 80))),
            ("labels", J::ints(&self.labels[..self.labels.len().min(80)])),
            ("n_tags", J::i(self.n_tags)),
            ("tags", J::A(self.tags.iter().take(40).map(opt_s).collect())),
            ("scores", J::ints(&self.scores[..self.scores.len().min(40)])),
            ("tokenized", J::s(vgen::json::clip(&self.tokenized, 120))),
            ("partial", J::s(vgen::json::clip(&self.partial, 120))),
        ])
    }
}

pub fn opt_s(x: &Option<String>) -> J {
    match x {
        Some(s) => J::s(s),
        None => J::Null,
    }
}

pub fn ref_json(rs: &RefSentence) -> J {
    J::obj(vec![
        ("text", J::s(vgen::json::clip(&rs.text(), 80))),
        ("labels", J::ints(&rs.labels[..rs.labels.len().min(80)])),
        ("tags", J::A(rs.tags.iter().take(40).map(|t| J::A(t.iter().map(opt_s).collect())).collect())),
    ])
}

pub fn model_json(m: &ModelData) -> J {
    let bytes = m.to_bytes();
    if bytes.len() <= 4096 {
        J::obj(vec![("summary", J::s(m.summary())), ("model_hex", J::hex(&bytes))])
    } else {
        J::obj(vec![("summary", J::s(m.summary())), ("model_bytes", J::i(bytes.len()))])
    }
}

pub fn new_predictor(m: &ModelData, predict_tags: bool) -> Result<Predictor, String> {
    let model = model_from(m)?;
    Predictor::new(model, predict_tags).map_err(|e| format!("Predictor::new: {e}"))
}
