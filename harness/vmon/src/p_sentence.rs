//! C02 (token partition), C03 / C04 (format round trips), C05 (parser totality and consistency).

use vaporetto::Sentence;
use vgen::fmt::{self, RefSentence};
use vgen::json::{clip, J};
use vgen::oracle::ref_partition;
use vgen::rng::{case_seed, fnv, Rng};
use vgen::text::{self, ctype};

use crate::ctx::{guard, panic_site, Ctx};
use crate::sut::*;

// ------------------------------------------------------------------------------------------ C02

const KINDS: [&str; 4] = ["ascii", "three_byte", "mixed_1_to_4_bytes", "escape_chars"];

fn c02_text(kind: usize, n: usize, rng: &mut Rng) -> Vec<char> {
    let pool: &[char] = match kind {
        0 => &['a', 'b', 'c', '1', 'Z'],
        1 => &['あ', 'い', '人', 'ア', '。'],
        2 => &['a', 'é', 'あ', '𠮷', '👨', 'ｱ'],
        _ => &[' ', '/', '\\', 'a', '-', '|'],
    };
    (0..n).map(|_| *rng.pick(pool)).collect()
}

/// Reference partial-annotation writer (all five delimiters escaped inside tags).
pub fn write_partial_ref(rs: &RefSentence) -> String {
    let mut out = String::new();
    for i in 0..rs.chars.len() {
        out.push(rs.chars[i]);
        for t in rs.trimmed(i) {
            out.push('/');
            if let Some(t) = t {
                for c in t.chars() {
                    if [' ', '/', '\\', '-', '|'].contains(&c) {
                        out.push('\\');
                    }
                    out.push(c);
                }
            }
        }
        if i + 1 < rs.chars.len() {
            out.push(match rs.labels[i] {
                0 => '-',
                1 => '|',
                _ => ' ',
            });
        }
    }
    out
}

thread_local! {
    static ROUTE_PREDICTOR: vaporetto::Predictor = {
        let m = vgen::mirror::ModelData {
            char_ngram_model: vec![vgen::mirror::NgramData { ngram: "a".into(), weights: vec![1, -1] }],
            bias: 1,
            char_window_size: 1,
            type_window_size: 1,
            ..Default::default()
        };
        new_predictor(&m, false).expect("route predictor")
    };
}

/// After `predict` the tokens tile the text, whatever a caller wrote into the labels before —
/// also when the same predictor analysed the same object just before.
fn predicted_tokens_tile_the_text(ctx: &mut Ctx, rs: &RefSentence) {
    let r = guard(|| {
        ROUTE_PREDICTOR.with(|p| {
            let mut s = vaporetto::Sentence::from_raw(rs.text()).expect("from_raw");
            p.predict(&mut s);
            let first = observe(&s, false);
            for (b, &l) in s.boundaries_mut().iter_mut().zip(&rs.labels) {
                *b = boundary_of(l);
            }
            p.predict(&mut s);
            (first, observe(&s, false))
        })
    });
    ctx.eval(1);
    ctx.count("sentences_predicted_edited_and_predicted_again", 1);
    match r {
        Ok((first, second)) => {
            let n = rs.chars.len();
            let mut pos = 0usize;
            let mut ok = !second.labels.contains(&2) && second.labels == first.labels;
            for t in &second.tokens {
                ok &= t.start == pos && t.end > t.start;
                pos = t.end;
            }
            ok &= pos == n && second.tokens.iter().map(|t| t.surface.as_str()).collect::<String>() == rs.text();
            if !ok {
                ctx.violation(
                    "C02:tokens_after_prediction_do_not_tile_the_text",
                    J::obj(vec![("labels_written_before_second_prediction", J::ints(&rs.labels[..rs.labels.len().min(80)])), ("after_first_prediction", first.to_json()), ("after_second_prediction", second.to_json())]),
                );
            }
        }
        Err(p) => ctx.violation(&format!("C02:panicked:{}", panic_site(&p)), J::obj(vec![("panic", J::s(&p)), ("route", J::s("predict, edit labels, predict"))])),
    }
}

fn c02_check(ctx: &mut Ctx, rs: &RefSentence, variant: &str, route: usize) {
    // the same label vector reached through different histories of the public API
    // a fifth route exists only for fully segmented sentences: the tokenized parser fed with redundant escapes
    let route = if route % 5 == 4 && rs.labels.contains(&2) { 0 } else { route % 5 };
    let route_name = ["from_raw+boundaries_mut", "predict_then_boundaries_mut", "from_partial_annotation", "update_raw_after_text_of_same_shape", "from_tokenized_with_redundant_escapes"][route];
    ctx.count(&format!("sentences_via_{route_name}"), 1);
    let r = guard(|| match route {
        4 => {
            // every character of every surface and tag carries a backslash (legal: an escape of an ordinary character)
            let mut line = String::new();
            let spans = ref_partition(rs.chars.len(), &rs.labels);
            for (i, sp) in spans.iter().enumerate() {
                if i > 0 {
                    line.push(' ');
                }
                for &c in &rs.chars[sp.start..sp.end] {
                    line.push('\\');
                    line.push(c);
                }
                for t in rs.trimmed(sp.end - 1) {
                    line.push('/');
                    if let Some(t) = t {
                        for c in t.chars() {
                            line.push('\\');
                            line.push(c);
                        }
                    }
                }
            }
            let s = vaporetto::Sentence::from_tokenized(&line).expect("tokenized line with redundant escapes");
            observe(&s, false)
        }
        3 => {
            // the object held another text with the same number of characters and bytes (reversed order)
            let prev: String = rs.chars.iter().rev().collect();
            let mut s = vaporetto::Sentence::from_raw(prev).expect("from_raw");
            s.update_raw(rs.text()).expect("update_raw");
            apply_annotations(&mut s, rs);
            observe(&s, false)
        }
        1 => ROUTE_PREDICTOR.with(|p| {
            let mut s = vaporetto::Sentence::from_raw(rs.text()).expect("from_raw");
            p.predict(&mut s);
            // SAFETY of lifetimes: the sentence does not outlive this closure
            apply_annotations(&mut s, rs);
            observe(&s, false)
        }),
        2 => {
            let s = vaporetto::Sentence::from_partial_annotation(&write_partial_ref(rs)).expect("reference-written partial annotation");
            observe(&s, false)
        }
        _ => {
            let s = build_sentence(rs);
            observe(&s, false)
        }
    });
    ctx.eval(1);
    let spans = ref_partition(rs.chars.len(), &rs.labels);
    // interaction counters
    {
        let mut run = 0u32;
        let mut max_run = 0u32;
        let mut start = 0usize;
        let mut unknown = false;
        let mut first_skipped = false;
        let mut last_skipped = false;
        let mut seg = 0usize;
        for i in 0..=rs.labels.len() {
            let end_of_seg = i == rs.labels.len() || rs.labels[i] == 1;
            if i < rs.labels.len() && rs.labels[i] == 2 {
                unknown = true;
            }
            if end_of_seg {
                if unknown {
                    run += 1;
                    max_run = max_run.max(run);
                    if seg == 0 {
                        first_skipped = true;
                    }
                    last_skipped = true;
                } else {
                    run = 0;
                    last_skipped = false;
                }
                unknown = false;
                seg += 1;
                start = i + 1;
            }
        }
        let _ = start;
        ctx.flag("vectors_with_2+_consecutive_skipped_segments", max_run >= 2);
        ctx.flag("vectors_with_skipped_first_segment", first_skipped);
        ctx.flag("vectors_with_skipped_final_segment", last_skipped);
        ctx.flag("vectors_without_unknown", !rs.labels.contains(&2));
    }
    let detail = |extra: Vec<(&str, J)>| {
        let mut kv = vec![("sentence", ref_json(rs)), ("variant", J::s(variant))];
        kv.extend(extra);
        J::obj(kv)
    };
    let obs = match r {
        Ok(o) => o,
        Err(p) => {
            ctx.violation(&format!("C02:panicked:{}", panic_site(&p)), detail(vec![("panic", J::s(&p))]));
            return;
        }
    };
    if obs.token_overflow {
        ctx.violation("C02:iterator_yields_more_tokens_than_characters", detail(vec![]));
        return;
    }
    let expect: Vec<TokenObs> = spans
        .iter()
        .map(|sp| TokenObs {
            start: sp.start,
            end: sp.end,
            surface: rs.chars[sp.start..sp.end].iter().collect(),
            tags: {
                let k = rs.max_tags();
                let mut t = rs.tags[sp.end - 1].clone();
                t.resize(k, None);
                t
            },
        })
        .collect();
    let trim_tok = |ts: &[TokenObs]| -> Vec<TokenObs> {
        ts.iter().map(|t| TokenObs { start: t.start, end: t.end, surface: t.surface.clone(), tags: fmt::trim(&t.tags) }).collect()
    };
    if trim_tok(&obs.tokens) != trim_tok(&expect) {
        let fmt_t = |ts: &[TokenObs]| J::A(ts.iter().map(|t| J::s(format!("{}..{} {:?} {:?}", t.start, t.end, t.surface, t.tags))).collect());
        ctx.violation(
            "C02:tokens_differ_from_reference_partition",
            detail(vec![("route", J::s(route_name)), ("expected", fmt_t(&expect)), ("observed", fmt_t(&obs.tokens))]),
        );
        return;
    }
    let want_count = expect.len().saturating_sub(1);
    let want_last = if expect.len() >= 2 { expect.last().map(|t| (t.start, t.end)) } else { None };
    if obs.count_after_first != Some(want_count) || obs.last_after_first != want_last {
        ctx.violation(
            "C02:tokens_reported_by_internal_iteration_after_next_differ",
            detail(vec![
                ("expected_count_after_first", J::i(want_count)),
                ("observed_count_after_first", J::s(format!("{:?}", obs.count_after_first))),
                ("expected_last_after_first", J::s(format!("{:?}", want_last))),
                ("observed_last_after_first", J::s(format!("{:?}", obs.last_after_first))),
            ]),
        );
        return;
    }
    let want = fmt::write_tokenized(rs);
    if obs.tokenized != want {
        ctx.violation(
            "C02:tokenized_writer_differs_from_reference_tokens",
            detail(vec![("expected", J::s(&want)), ("observed", J::s(&obs.tokenized))]),
        );
    }
}

/// Exhaustive part: case = (n, text kind, with/without tags); all 3^(n-1) label vectors.
pub fn run_c02x(ctx: &mut Ctx, from: u64, to: u64) {
    for k in from..to {
        ctx.begin_case(k);
        let n = (k / 8) as usize + 1;
        let kind = ((k / 2) % 4) as usize;
        let with_tags = k % 2 == 1;
        let mut rng = Rng::new(case_seed(ctx.seed, "C02x", k));
        let chars = c02_text(kind, n, &mut rng);
        let total = 3usize.pow((n - 1) as u32);
        for v in 0..total {
            let mut labels = vec![0u8; n - 1];
            let mut x = v;
            for l in labels.iter_mut() {
                *l = (x % 3) as u8;
                x /= 3;
            }
            let tags = if with_tags {
                (0..n).map(|i| if (i + v) % 3 == 0 { vec![Some(format!("t{i}")), None] } else if (i + v) % 3 == 1 { vec![None, Some("u".to_string())] } else { vec![] }).collect()
            } else {
                vec![vec![]; n]
            };
            let rs = RefSentence { chars: chars.clone(), labels, tags };
            c02_check(ctx, &rs, KINDS[kind], v + k as usize);
            if n >= 2 {
                ctx.nontrivial(fnv(format!("{:?}{:?}{}", rs.chars, rs.labels, with_tags).as_bytes()));
            }
        }
        ctx.count("exhaustive_label_vectors", total as u64);
        fallback_after_failed_update(ctx, k);
        if ctx.want_sample() && n >= 3 {
            ctx.sample(J::obj(vec![
                ("n_chars", J::i(n)),
                ("text", J::s(chars.iter().collect::<String>())),
                ("kind", J::s(KINDS[kind])),
                ("with_tags", J::B(with_tags)),
                ("label_vectors_enumerated", J::i(total)),
            ]));
        }
    }
}

/// The documented fallback (a single space) after a rejected update on an object that carried tags:
/// its one token must be reported, written and parsed back like any other sentence.
pub fn fallback_after_failed_update(ctx: &mut Ctx, k: u64) {
    let r = guard(|| {
        let mut s: vaporetto::Sentence<'static, 'static> = match k % 3 {
            0 => vaporetto::Sentence::from_tokenized("ab/X/Y c/Z").unwrap(),
            1 => vaporetto::Sentence::from_partial_annotation("a/T-b c|d/U/V/W").unwrap(),
            _ => {
                let mut s = vaporetto::Sentence::from_raw("abc".to_string()).unwrap();
                s.reset_tags(2);
                s
            }
        };
        let rejected = match k % 4 {
            0 => s.update_raw(String::new()).is_err(),
            1 => s.update_raw("a\0b".to_string()).is_err(),
            2 => s.update_tokenized("a  b").is_err(),
            _ => s.update_partial_annotation("a?b").is_err(),
        };
        (rejected, observe(&s, false))
    });
    ctx.eval(1);
    ctx.count("fallback_sentences_after_rejected_update_checked", 1);
    match r {
        Ok((true, obs)) => {
            let want = RefSentence { chars: vec![' '], labels: vec![], tags: vec![vec![]] };
            let ok = obs.tokens.len() == 1
                && obs.tokens[0].start == 0
                && obs.tokens[0].end == 1
                && obs.tokens[0].surface == " "
                && obs.tokenized == fmt::write_tokenized(&want)
                && obs.partial == " "
                && obs.n_tags == 0;
            if !ok {
                ctx.violation("C02:fallback_sentence_after_rejected_update_is_not_the_single_space_token", J::obj(vec![("observed", obs.to_json()), ("variant", J::i(k % 12))]));
            }
        }
        Ok((false, _)) => ctx.violation("C02:invalid_update_was_accepted", J::i(k % 4)),
        Err(p) => ctx.violation(&format!("C02:fallback_sentence_after_rejected_update_panicked:{}", panic_site(&p)), J::obj(vec![("panic", J::s(&p)), ("variant", J::i(k % 12))])),
    }
}

/// Random part: longer texts, high density of unknown boundaries.
pub fn run_c02r(ctx: &mut Ctx, from: u64, to: u64) {
    for k in from..to {
        ctx.begin_case(k);
        let mut rng = Rng::new(case_seed(ctx.seed, "C02r", k));
        let n = if ctx.tiny {
            rng.urange(1, 12)
        } else if k % 5000 == 4999 {
            // character and byte positions beyond 65535
            ctx.count("sentences_longer_than_65535_chars", 1);
            rng.urange(66_000, 70_000)
        } else if rng.chance(1, 20) {
            rng.urange(61, 400)
        } else {
            rng.urange(1, 60)
        };
        let kind = rng.below(4);
        let mut chars = c02_text(kind, n, &mut rng);
        if rng.chance(1, 40) {
            // a text that starts with U+FEFF (an ordinary character of the text as far as the sentence is concerned)
            chars[0] = '\u{feff}';
            ctx.count("texts_starting_with_u_feff", 1);
        }
        // (the last two: hardly any word boundary, i.e. segments with hundreds of unknown boundaries)
        let dist: [u32; 3] = *rng.pick(&[[10, 10, 2], [10, 10, 10], [10, 10, 30], [20, 1, 3], [6, 1, 6], [1, 10, 5], [1, 0, 30], [10, 0, 10]]);
        ctx.flag("sentences_with_128_or_more_unknown_boundaries_in_one_segment", dist[1] == 0 && n > 300);
        let labels: Vec<u8> = (0..n - 1).map(|_| rng.weighted(&dist) as u8).collect();
        let with_tags = rng.chance(1, 2);
        let tags = (0..n)
            .map(|_| {
                if with_tags && rng.chance(1, 2) {
                    (0..rng.urange(1, 3)).map(|_| if rng.chance(2, 3) { Some(rng.pick(&["N", "a b", "x/y", "名"]).to_string()) } else { None }).collect()
                } else {
                    vec![]
                }
            })
            .collect();
        let rs = RefSentence { chars, labels, tags };
        c02_check(ctx, &rs, KINDS[kind], k as usize);
        if k % 64 == 0 {
            fallback_after_failed_update(ctx, k / 64);
        }
        if k % 8 == 3 && n >= 2 && !rs.chars.contains(&'\0') {
            predicted_tokens_tile_the_text(ctx, &rs);
        }
        if n >= 2 {
            ctx.nontrivial(fnv(format!("{:?}{:?}{:?}", rs.chars, rs.labels, rs.tags).as_bytes()));
        }
    }
}

// ------------------------------------------------------------------------------------------ C03 / C04

const FMT_ALPHA: &[char] = &[' ', '/', '\\', '-', '|', 'a', 'あ', '𠮷', 'é', 'b', 'ｱ', '\n'];
/// Look-alikes and other white space / control characters: none of them has a meaning in the formats.
const FMT_CONFUSABLE: &[char] = &[
    '\u{3000}', '\u{a0}', '／', '＼', '｜', '−', '－', 'ー', '\u{2028}', '\u{2029}', '\t', '\u{b}', '\u{c}', '\r', '\u{85}', '\u{1f}', '\u{7f}', '\u{200b}',
    '\u{feff}', '\u{2002}', '\u{202f}', '\u{10ffff}', '\u{e000}',
    // characters whose code point, truncated to its low byte, is a delimiter / escape / NUL / line break
    '一', 'Ā', '言', '＠', '中', 'Ｏ', 'ぜ', 'ぼ', '上', '不', '\u{4e20}', '\u{4e2f}', '\u{4e5c}', '\u{4e7c}',
];

fn fmt_char(rng: &mut Rng) -> char {
    match rng.below(20) {
        0 | 1 => *rng.pick(FMT_CONFUSABLE),
        2 => loop {
            let u = 1 + (rng.next_u64() % 0x10_ffff) as u32;
            if let Some(c) = char::from_u32(u) {
                break c;
            }
        },
        _ => *rng.pick(FMT_ALPHA),
    }
}

fn gen_tag(rng: &mut Rng) -> String {
    let n = rng.urange(1, 4);
    (0..n).map(|_| fmt_char(rng)).collect()
}

fn gen_round_trip_sentence(rng: &mut Rng, partial: bool) -> RefSentence {
    let n = match rng.below(6) {
        0 => 1,
        1 => 2,
        _ => rng.urange(3, 24),
    };
    let chars: Vec<char> = (0..n).map(|_| fmt_char(rng)).collect();
    let labels: Vec<u8> = (0..n - 1).map(|_| if partial { rng.below(3) as u8 } else { rng.below(2) as u8 }).collect();
    let tag_density = *rng.pick(&[0u32, 1, 2, 3]);
    let mut tags: Vec<Vec<Option<String>>> = vec![vec![]; n];
    for i in 0..n {
        let token_end = i == n - 1 || labels[i] == 1;
        if (partial || token_end) && rng.chance(tag_density, 4) {
            let k = rng.urange(1, 3);
            for _ in 0..k {
                tags[i].push(if rng.chance(3, 4) { Some(gen_tag(rng)) } else { None });
            }
        }
    }
    // rare: one annotated position with several hundred tag columns, most of them absent
    if rng.chance(1, 300) {
        let i = if partial { rng.below(n) } else { n - 1 };
        let k = *rng.pick(&[255usize, 256, 257, 300, 600]);
        tags[i] = (0..k).map(|j| if j % 50 == 7 || j + 1 == k { Some(format!("t{j}")) } else { None }).collect();
    }
    RefSentence { chars, labels, tags }
}

/// A sentence with positions beyond 65535 (sparse tags, every label kind the format allows).
fn giant_round_trip_sentence(rng: &mut Rng, partial: bool) -> RefSentence {
    let n = rng.urange(66_000, 68_000);
    let chars: Vec<char> = (0..n).map(|_| fmt_char(rng)).collect();
    let labels: Vec<u8> = (0..n - 1).map(|_| if partial { rng.below(3) as u8 } else { rng.below(2) as u8 }).collect();
    let mut tags: Vec<Vec<Option<String>>> = vec![vec![]; n];
    for i in 0..n {
        let token_end = i == n - 1 || labels[i] == 1;
        if (partial || token_end) && (rng.chance(1, 200) || i + 3 >= n) {
            tags[i] = vec![Some(gen_tag(rng)), None, Some(gen_tag(rng))];
        }
    }
    RefSentence { chars, labels, tags }
}

fn count_fmt_facts(ctx: &mut Ctx, rs: &RefSentence) {
    let special = |c: char| c == ' ' || c == '/' || c == '\\';
    ctx.flag("sentences_with_escape_worthy_char_in_text", rs.chars.iter().any(|&c| special(c)));
    let mut in_tag = [false; 5];
    let mut interior_absent = false;
    let mut any_tag = false;
    for ts in &rs.tags {
        let tr = fmt::trim(ts);
        if tr.iter().any(|t| t.is_none()) {
            interior_absent = true;
        }
        for t in tr.iter().flatten() {
            any_tag = true;
            for (i, d) in [' ', '/', '\\', '-', '|'].iter().enumerate() {
                if t.contains(*d) {
                    in_tag[i] = true;
                }
            }
        }
    }
    ctx.flag("sentences_with_tags", any_tag);
    ctx.flag("sentences_with_interior_absent_tag", interior_absent);
    for (i, name) in ["space", "slash", "backslash", "dash", "pipe"].iter().enumerate() {
        ctx.flag(&format!("sentences_with_{name}_inside_a_tag"), in_tag[i]);
    }
    ctx.flag("sentences_with_4_byte_char", rs.chars.iter().any(|c| c.len_utf8() == 4));
}

fn round_trip(ctx: &mut Ctx, prop: &str, rs: &RefSentence, partial: bool) {
    let detail = |extra: Vec<(&str, J)>| {
        let mut kv = vec![("sentence", ref_json(rs))];
        kv.extend(extra);
        J::obj(kv)
    };
    let w = guard(|| {
        let s = build_sentence(rs);
        let o = observe(&s, false);
        o
    });
    ctx.eval(1);
    let obs = match w {
        Ok(o) => o,
        Err(p) => {
            ctx.violation(&format!("{prop}:writer_panicked:{}", panic_site(&p)), detail(vec![("panic", J::s(&p))]));
            return;
        }
    };
    let written = if partial { obs.partial.clone() } else { obs.tokenized.clone() };
    if !partial {
        if !obs.tokenized_utf8_ok {
            ctx.violation("C03:written_text_is_not_valid_utf8", detail(vec![("bytes", J::hex(obs.tokenized.as_bytes()))]));
            return;
        }
        let want = fmt::write_tokenized(rs);
        if written != want {
            ctx.violation("C03:writer_differs_from_reference_writer", detail(vec![("expected", J::s(&want)), ("observed", J::s(&written))]));
            return;
        }
    }
    // reference parser on the written text
    let rp = if partial { fmt::parse_partial(&written) } else { fmt::parse_tokenized(&written) };
    match rp {
        Ok(back) => {
            if let Err(e) = fmt::same_modulo_trailing(rs, &back) {
                ctx.violation(
                    &format!("{prop}:written_text_does_not_describe_the_sentence(reference_parser)"),
                    detail(vec![("written", J::s(&written)), ("difference", J::s(&e))]),
                );
                return;
            }
        }
        Err(e) => {
            ctx.violation(
                &format!("{prop}:written_text_rejected_by_reference_parser"),
                detail(vec![("written", J::s(&written)), ("error", J::s(e))]),
            );
            return;
        }
    }
    // the library's own parser on the written text
    let via_update = rs.chars.len() % 2 == 0;
    let back = guard(|| {
        if via_update {
            // the same parse through update_* on an object that already holds a tagged sentence
            let mut s = Sentence::from_tokenized("まぁ/副詞/X 良い/形容詞 だろう/助動詞/Y/Z").unwrap();
            let r = if partial { s.update_partial_annotation(&written) } else { s.update_tokenized(&written) };
            r.map(|_| observe(&s, false)).map_err(|e| format!("{e}"))
        } else {
            let r = if partial { Sentence::from_partial_annotation(&written) } else { Sentence::from_tokenized(&written) };
            r.map(|s| observe(&s, false)).map_err(|e| format!("{e}"))
        }
    });
    ctx.eval(1);
    match back {
        Ok(Ok(o)) => match o.to_ref() {
            Ok(b) => {
                if let Err(e) = fmt::same_modulo_trailing(rs, &b) {
                    ctx.violation(
                        &format!("{prop}:parse_of_written_text_differs"),
                        detail(vec![("written", J::s(&written)), ("difference", J::s(&e)), ("parsed", o.to_json())]),
                    );
                }
            }
            Err(e) => ctx.violation(&format!("{prop}:parsed_sentence_inconsistent"), detail(vec![("written", J::s(&written)), ("error", J::s(&e))])),
        },
        Ok(Err(e)) => ctx.violation(&format!("{prop}:written_text_rejected_by_parser"), detail(vec![("written", J::s(&written)), ("error", J::s(&e))])),
        Err(p) => ctx.violation(&format!("{prop}:parser_panicked:{}", panic_site(&p)), detail(vec![("written", J::s(&written)), ("panic", J::s(&p))])),
    }
}

/// write(parse(write(parse(s)))) == write(parse(s)) for every accepted s.
fn idempotence(ctx: &mut Ctx, s: &str) {
    let r = guard(|| {
        let Ok(p1) = Sentence::from_tokenized(s) else { return None };
        let mut w1 = String::new();
        p1.write_tokenized_text(&mut w1);
        let p2 = Sentence::from_tokenized(&w1);
        let w2 = p2.as_ref().ok().map(|p| {
            let mut w = String::new();
            p.write_tokenized_text(&mut w);
            w
        });
        Some((w1, w2))
    });
    ctx.eval(1);
    match r {
        Ok(None) => ctx.count("idempotence_inputs_rejected", 1),
        Ok(Some((w1, Some(w2)))) => {
            ctx.count("idempotence_inputs_accepted", 1);
            if w1 != w2 {
                ctx.violation("C03:write_after_parse_not_idempotent", J::obj(vec![("input", J::s(s)), ("first", J::s(&w1)), ("second", J::s(&w2))]));
            }
        }
        Ok(Some((w1, None))) => {
            ctx.violation("C03:own_output_rejected_on_reparse", J::obj(vec![("input", J::s(s)), ("written", J::s(&w1))]));
        }
        Err(p) => ctx.violation(&format!("C03:idempotence_panicked:{}", panic_site(&p)), J::obj(vec![("input", J::s(s)), ("panic", J::s(&p))])),
    }
}

const IDEM_ALPHA: [char; 7] = ['a', 'あ', ' ', '/', '\\', '𠮷', '-'];

fn nth_string(alpha: &[char], mut idx: u64) -> String {
    // strings in length-lexicographic order: "", then all of length 1, ...
    let b = alpha.len() as u64;
    let mut len = 0;
    let mut block = 1u64;
    while idx >= block {
        idx -= block;
        block *= b;
        len += 1;
    }
    let mut cs = vec![];
    for _ in 0..len {
        cs.push(alpha[(idx % b) as usize]);
        idx /= b;
    }
    cs.iter().collect()
}

pub fn strings_up_to(alpha_len: u64, max_len: u32) -> u64 {
    (0..=max_len).map(|l| alpha_len.pow(l)).sum()
}

/// Round trip of sentence states that only histories produce: the fallback after a rejected update,
/// and a tagged sentence after `predict` + `fill_tags` with a predictor whose model has no tag model.
fn special_states_round_trip(ctx: &mut Ctx, prop: &str, k: u64, partial: bool) {
    let r = guard(|| {
        let mut out = vec![];
        // (a) fallback
        let mut s: vaporetto::Sentence<'static, 'static> = vaporetto::Sentence::from_tokenized("ab/X/Y c/Z").unwrap();
        let _ = if k % 2 == 0 { s.update_raw(String::new()) } else { s.update_tokenized("a  b") };
        out.push(("fallback_after_rejected_update", observe(&s, false)));
        out
    });
    let r2 = guard(|| {
        // (b) tag-less model with tag prediction requested
        ROUTE_TAGLESS.with(|p| {
            let mut s = vaporetto::Sentence::from_tokenized("ab/X/Y c/Z d").unwrap();
            p.predict(&mut s);
            #[cfg(feature = "tag-prediction")]
            s.fill_tags();
            observe(&s, false)
        })
    });
    let r3 = guard(|| {
        // (c) a tagged sentence analysed by a tag-predicting predictor, written before fill_tags runs
        ROUTE_TAGLESS.with(|p| {
            let mut s = vaporetto::Sentence::from_tokenized("ab/X/Y c/Z d").unwrap();
            p.predict(&mut s);
            observe(&s, false)
        })
    });
    let r4 = guard(|| {
        // (d) the default object (one space) with tag columns added, never updated
        let mut s = vaporetto::Sentence::default();
        s.reset_tags(2);
        for t in s.tags_mut().iter_mut() {
            *t = Some(std::borrow::Cow::Borrowed("T"));
        }
        observe(&s, false)
    });
    let r5 = guard(|| {
        // (e) tags from a parsed line, then a longer raw text loaded into the same object (no prediction in between)
        let mut s = vaporetto::Sentence::from_tokenized("ab/X/Y c/Z").unwrap();
        s.update_raw("abcdefgh ij".to_string()).unwrap();
        observe(&s, false)
    });
    let r6 = guard(|| {
        // (f) tags filled in by a predictor whose tag model has a category without any candidate
        ROUTE_EMPTY_CATEGORY.with(|p| {
            let mut s = vaporetto::Sentence::from_raw("abc d").unwrap();
            p.predict(&mut s);
            for (i, b) in s.boundaries_mut().iter_mut().enumerate() {
                *b = boundary_of(u8::from(i == 1 || i == 2));
            }
            #[cfg(feature = "tag-prediction")]
            s.fill_tags();
            observe(&s, false)
        })
    });
    ctx.eval(6);
    ctx.count("special_history_states_round_tripped", 6);
    let mut states = vec![];
    match r6 {
        Ok(o) => {
            #[cfg(feature = "tag-prediction")]
            if o.tags.iter().any(|t| t.as_deref() == Some("")) || !o.tags.iter().any(|t| t.as_deref() == Some("Z")) {
                ctx.violation(&format!("{prop}:tags_filled_for_category_without_candidates"), o.to_json());
                return;
            }
            states.push(("after_fill_tags_with_empty_tag_category", o));
        }
        Err(p) => {
            ctx.violation(&format!("{prop}:writer_panicked_after_fill_tags_with_empty_tag_category:{}", panic_site(&p)), J::obj(vec![("panic", J::s(&p))]));
            return;
        }
    }
    match r5 {
        Ok(o) => {
            if o.n_tags != 0 || !o.tags.is_empty() || o.text != "abcdefgh ij" {
                ctx.violation(&format!("{prop}:raw_update_of_tagged_object_keeps_tags"), o.to_json());
                return;
            }
            states.push(("raw_update_after_tagged_line", o));
        }
        Err(p) => {
            ctx.violation(&format!("{prop}:writer_panicked_after_raw_update_of_tagged_object:{}", panic_site(&p)), J::obj(vec![("panic", J::s(&p))]));
            return;
        }
    }
    match r4 {
        Ok(o) => {
            if o.tags.len() != 2 || o.n_tags != 2 {
                ctx.violation(&format!("{prop}:default_sentence_with_tag_columns_inconsistent"), o.to_json());
                return;
            }
            states.push(("default_sentence_with_tag_columns", o));
        }
        Err(p) => {
            ctx.violation(&format!("{prop}:writer_panicked_on_default_sentence_with_tag_columns:{}", panic_site(&p)), J::obj(vec![("panic", J::s(&p))]));
            return;
        }
    }
    match r3 {
        Ok(o) => states.push(("after_predict_with_tag_predictor_before_fill_tags", o)),
        Err(p) => {
            ctx.violation(&format!("{prop}:writer_panicked_after_predict_before_fill_tags:{}", panic_site(&p)), J::obj(vec![("panic", J::s(&p))]));
            return;
        }
    }
    match r {
        Ok(v) => states.extend(v),
        Err(p) => {
            ctx.violation(&format!("{prop}:writer_panicked_on_fallback_sentence:{}", panic_site(&p)), J::obj(vec![("panic", J::s(&p))]));
            return;
        }
    }
    match r2 {
        Ok(o) => states.push(("after_fill_tags_with_tagless_model", o)),
        Err(p) => {
            ctx.violation(&format!("{prop}:writer_panicked_after_fill_tags_with_tagless_model:{}", panic_site(&p)), J::obj(vec![("panic", J::s(&p))]));
            return;
        }
    }
    for (name, obs) in states {
        let Ok(mut want) = obs.to_ref() else {
            ctx.violation(&format!("{prop}:inconsistent_sentence_state:{name}"), obs.to_json());
            continue;
        };
        if !partial {
            // the tokenized format carries the tags of tokens (stored on their last character); tag slots
            // of other characters (left over from an earlier segmentation) are not part of what it denotes
            let n = want.chars.len();
            for i in 0..n {
                let token_end = i + 1 == n || want.labels[i] == 1;
                if !token_end {
                    want.tags[i].iter_mut().for_each(|t| *t = None);
                }
            }
        }
        if partial || !want.labels.contains(&2) {
            let written = if partial { obs.partial.clone() } else { obs.tokenized.clone() };
            let back = if partial { fmt::parse_partial(&written) } else { fmt::parse_tokenized(&written) };
            let ok = match back {
                Ok(b) => fmt::same_modulo_trailing(&want, &b).is_ok(),
                Err(_) => false,
            };
            let lib_ok = guard(|| {
                let r = if partial { vaporetto::Sentence::from_partial_annotation(&written) } else { vaporetto::Sentence::from_tokenized(&written) };
                r.ok().and_then(|s| observe(&s, false).to_ref().ok()).map(|b| fmt::same_modulo_trailing(&want, &b).is_ok()).unwrap_or(false)
            })
            .unwrap_or(false);
            if !ok || !lib_ok {
                ctx.violation(
                    &format!("{prop}:round_trip_of_history_state_fails:{name}"),
                    J::obj(vec![("state", obs.to_json()), ("written", J::s(&written)), ("reference_parser_ok", J::B(ok)), ("library_parser_ok", J::B(lib_ok))]),
                );
            }
        }
    }
}

thread_local! {
    static ROUTE_TAGLESS: vaporetto::Predictor = {
        let m = vgen::mirror::ModelData {
            char_ngram_model: vec![vgen::mirror::NgramData { ngram: "b".into(), weights: vec![3, -3] }],
            bias: 1,
            char_window_size: 1,
            type_window_size: 1,
            ..Default::default()
        };
        // (builds without the tag-prediction feature cannot request tag prediction)
        new_predictor(&m, cfg!(feature = "tag-prediction")).expect("tag-less predictor with tag prediction")
    };
}

thread_local! {
    /// token "c": first category without candidates, second category with the single candidate "Z"
    static ROUTE_EMPTY_CATEGORY: vaporetto::Predictor = {
        let m = vgen::mirror::ModelData {
            char_ngram_model: vec![vgen::mirror::NgramData { ngram: "b".into(), weights: vec![3, -3] }],
            bias: 1,
            char_window_size: 1,
            type_window_size: 1,
            tag_models: vec![vgen::mirror::TagModel { token: "c".into(), tags: vec![vec![], vec!["Z".into()]], char_ngram_model: vec![], type_ngram_model: vec![], bias: vec![] }],
            ..Default::default()
        };
        new_predictor(&m, cfg!(feature = "tag-prediction")).expect("predictor with an empty tag category")
    };
}

pub fn run_c03(ctx: &mut Ctx, from: u64, to: u64) {
    for k in from..to {
        ctx.begin_case(k);
        if k % 256 == 0 {
            special_states_round_trip(ctx, "C03", k / 256, false);
        }
        let mut rng = Rng::new(case_seed(ctx.seed, "C03", k));
        let giant = !ctx.tiny && k % 6000 == 2999;
        ctx.count("sentences_longer_than_65535_chars", u64::from(giant));
        let rs = if giant { giant_round_trip_sentence(&mut rng, false) } else { gen_round_trip_sentence(&mut rng, false) };
        count_fmt_facts(ctx, &rs);
        round_trip(ctx, "C03", &rs, false);
        ctx.nontrivial(fnv(format!("{:?}", rs).as_bytes()));
        // idempotence on a random string over the format alphabet and on a mutation of the written text
        let n = rng.urange(1, 12);
        let s: String = (0..n).map(|_| *rng.pick(FMT_ALPHA)).collect();
        idempotence(ctx, &s);
        let mut w: Vec<char> = fmt::write_tokenized(&rs).chars().collect();
        if !w.is_empty() {
            let i = rng.below(w.len());
            match rng.below(3) {
                0 => {
                    w.remove(i);
                }
                1 => w.insert(i, *rng.pick(FMT_ALPHA)),
                _ => w[i] = *rng.pick(FMT_ALPHA),
            }
            idempotence(ctx, &w.iter().collect::<String>());
        }
        if ctx.want_sample() {
            ctx.sample(J::obj(vec![("sentence", ref_json(&rs)), ("written", J::s(fmt::write_tokenized(&rs)))]));
        }
    }
}

/// Exhaustive idempotence: all strings up to a length over a 7-symbol alphabet (index = case id).
pub fn run_c03x(ctx: &mut Ctx, from: u64, to: u64) {
    for k in from..to {
        ctx.begin_case(k);
        let s = nth_string(&IDEM_ALPHA, k);
        idempotence(ctx, &s);
        ctx.count("exhaustive_strings", 1);
    }
}

pub fn run_c04(ctx: &mut Ctx, from: u64, to: u64) {
    for k in from..to {
        ctx.begin_case(k);
        if k % 256 == 0 {
            special_states_round_trip(ctx, "C04", k / 256, true);
        }
        let mut rng = Rng::new(case_seed(ctx.seed, "C04", k));
        let giant = !ctx.tiny && k % 6000 == 2999;
        ctx.count("sentences_longer_than_65535_chars", u64::from(giant));
        let rs = if giant { giant_round_trip_sentence(&mut rng, true) } else { gen_round_trip_sentence(&mut rng, true) };
        count_fmt_facts(ctx, &rs);
        ctx.flag("sentences_with_unknown_boundary", rs.labels.contains(&2));
        ctx.flag("sentences_with_more_than_255_tag_columns", rs.max_tags() > 255);
        round_trip(ctx, "C04", &rs, true);
        ctx.nontrivial(fnv(format!("{:?}", rs).as_bytes()));
        if ctx.want_sample() {
            ctx.sample(J::obj(vec![("sentence", ref_json(&rs))]));
        }
    }
}

// ------------------------------------------------------------------------------------------ C05

#[derive(Clone, Copy, Debug, PartialEq, Eq)]
pub enum Fmt {
    Raw,
    Tok,
    Part,
}

impl Fmt {
    pub fn name(self) -> &'static str {
        match self {
            Fmt::Raw => "raw",
            Fmt::Tok => "tokenized",
            Fmt::Part => "partial_annotation",
        }
    }
}

pub fn ref_parse(f: Fmt, s: &str) -> Result<RefSentence, &'static str> {
    match f {
        Fmt::Raw => {
            let chars: Vec<char> = s.chars().collect();
            if chars.is_empty() {
                return Err("empty");
            }
            if chars.contains(&'\0') {
                return Err("NUL");
            }
            let n = chars.len();
            Ok(RefSentence { chars, labels: vec![2; n - 1], tags: vec![vec![]; n] })
        }
        Fmt::Tok => fmt::parse_tokenized(s),
        Fmt::Part => fmt::parse_partial(s),
    }
}

pub fn sut_from<'b>(f: Fmt, s: &str) -> Result<Sentence<'static, 'b>, String> {
    match f {
        Fmt::Raw => Sentence::from_raw(s.to_string()),
        Fmt::Tok => Sentence::from_tokenized(s),
        Fmt::Part => Sentence::from_partial_annotation(s),
    }
    .map_err(|e| format!("{e}"))
}

pub fn sut_update(sent: &mut Sentence<'static, '_>, f: Fmt, s: &str) -> Result<(), String> {
    match f {
        Fmt::Raw => sent.update_raw(s.to_string()),
        Fmt::Tok => sent.update_tokenized(s),
        Fmt::Part => sent.update_partial_annotation(s),
    }
    .map_err(|e| format!("{e}"))
}

/// Checks that an observed sentence describes exactly `input` (per the reference parser).
fn check_describes(ctx: &mut Ctx, f: Fmt, input: &str, obs: &Obs, via: &str) -> bool {
    let detail = |extra: Vec<(&str, J)>| {
        let mut kv = vec![("format", J::s(f.name())), ("input", J::s(clip(input, 200))), ("via", J::s(via)), ("observed", obs.to_json())];
        kv.extend(extra);
        J::obj(kv)
    };
    let want = match ref_parse(f, input) {
        Ok(w) => w,
        Err(e) => {
            ctx.violation(&format!("C05:{}:accepted_input_the_reference_parser_rejects", f.name()), detail(vec![("reference_error", J::s(e))]));
            return false;
        }
    };
    let got = match obs.to_ref() {
        Ok(g) => g,
        Err(e) => {
            ctx.violation(&format!("C05:{}:inconsistent_array_lengths", f.name()), detail(vec![("error", J::s(&e))]));
            return false;
        }
    };
    if let Err(e) = fmt::same_modulo_trailing(&want, &got) {
        ctx.violation(&format!("C05:{}:sentence_does_not_describe_input", f.name()), detail(vec![("difference", J::s(&e))]));
        return false;
    }
    let types: Vec<u8> = want.chars.iter().map(|&c| ctype(c)).collect();
    if obs.types != types {
        ctx.violation(&format!("C05:{}:character_types_differ", f.name()), detail(vec![("expected", J::ints(&types)), ("observed_types", J::ints(&obs.types))]));
        return false;
    }
    if !obs.scores.is_empty() {
        ctx.violation(&format!("C05:{}:scores_not_empty_after_parse", f.name()), detail(vec![]));
        return false;
    }
    if obs.token_overflow {
        ctx.violation(&format!("C05:{}:iterator_yields_more_tokens_than_characters", f.name()), detail(vec![]));
        return false;
    }
    // every writer and the iterator work and agree with the reference view
    let rt = fmt::write_tokenized(&got);
    if obs.tokenized != rt {
        ctx.violation(&format!("C05:{}:tokenized_writer_disagrees_with_state", f.name()), detail(vec![("expected", J::s(&rt))]));
        return false;
    }
    // the partial-annotation writer: its text must denote the same sentence (reference parser)
    match fmt::parse_partial(&obs.partial) {
        Ok(back) if fmt::same_modulo_trailing(&got, &back).is_ok() => {}
        other => {
            ctx.violation(
                &format!("C05:{}:partial_annotation_writer_disagrees_with_state", f.name()),
                detail(vec![("written", J::s(clip(&obs.partial, 200))), ("reference_parse", J::s(match other { Ok(_) => "denotes another sentence".to_string(), Err(e) => format!("rejected: {e}") }))]),
            );
            return false;
        }
    }
    true
}

/// One input string through one constructor and through one update on a used sentence.
fn c05_one(ctx: &mut Ctx, f: Fmt, input: &str, rng: &mut Rng) {
    // constructor
    let r = guard(|| sut_from(f, input).map(|s| observe(&s, false)));
    ctx.eval(1);
    let fresh = match r {
        Err(p) => {
            ctx.violation(
                &format!("C05:{}:constructor_panicked:{}", f.name(), panic_site(&p)),
                J::obj(vec![("input", J::s(clip(input, 200))), ("panic", J::s(&p))]),
            );
            None
        }
        Ok(Ok(obs)) => {
            ctx.count(&format!("{}_accepted", f.name()), 1);
            if check_describes(ctx, f, input, &obs, "constructor") {
                Some(Some(obs))
            } else {
                None
            }
        }
        Ok(Err(_)) => {
            ctx.count(&format!("{}_rejected", f.name()), 1);
            if ref_parse(f, input).is_ok() {
                ctx.count(&format!("{}_rejected_although_reference_accepts", f.name()), 1);
            }
            Some(None)
        }
    };
    // update on a sentence with a previous state
    let same_text: Option<String> = match &fresh {
        Some(Some(o)) if !o.text.is_empty() => Some(o.text.clone()),
        _ => None,
    };
    let mut prev_kind = rng.below(6);
    if prev_kind >= 4 && same_text.is_none() {
        prev_kind -= 3;
    }
    if prev_kind >= 4 {
        ctx.count("updates_on_sentence_already_holding_the_same_text_with_labels", 1);
    }
    let r = guard(|| {
        let mut s = match prev_kind {
            4 | 5 => {
                // the object already holds exactly this raw text, fully labelled and tagged
                let mut s = Sentence::from_raw(same_text.clone().unwrap()).unwrap();
                for (i, b) in s.boundaries_mut().iter_mut().enumerate() {
                    *b = if (i + prev_kind) % 2 == 0 { vaporetto::CharacterBoundary::WordBoundary } else { vaporetto::CharacterBoundary::NotWordBoundary };
                }
                s.reset_tags(prev_kind - 3);
                for t in s.tags_mut().iter_mut() {
                    *t = Some(std::borrow::Cow::Borrowed("Q"));
                }
                s
            }
            0 => Sentence::default(),
            1 => Sentence::from_raw("12345".to_string()).unwrap(),
            2 => Sentence::from_tokenized("ab/X/Y c/Z").unwrap(),
            _ => Sentence::from_partial_annotation("a/T-b c|d/U/V/W").unwrap(),
        };
        let res = sut_update(&mut s, f, input);
        (res.is_ok(), observe(&s, false))
    });
    ctx.eval(1);
    match r {
        Err(p) => ctx.violation(
            &format!("C05:{}:update_panicked:{}", f.name(), panic_site(&p)),
            J::obj(vec![("input", J::s(clip(input, 200))), ("previous_state", J::i(prev_kind)), ("panic", J::s(&p))]),
        ),
        Ok((ok, obs)) => {
            let want = match &fresh {
                Some(Some(o)) if ok => Some(o.clone()),
                Some(None) if !ok => Some(default_obs()),
                None => None,
                _ => {
                    ctx.violation(
                        &format!("C05:{}:update_and_constructor_disagree_on_acceptance", f.name()),
                        J::obj(vec![("input", J::s(clip(input, 200))), ("update_ok", J::B(ok))]),
                    );
                    None
                }
            };
            if let Some(w) = want {
                if w != obs {
                    ctx.violation(
                        &format!("C05:{}:{}", f.name(), if ok { "state_after_update_differs_from_fresh_parse" } else { "state_after_failed_update_is_not_default" }),
                        J::obj(vec![("input", J::s(clip(input, 200))), ("previous_state", J::i(prev_kind)), ("expected", w.to_json()), ("observed", obs.to_json())]),
                    );
                }
            }
        }
    }
}

pub fn default_obs() -> Obs {
    observe(&Sentence::default(), false)
}

const C05_ALPHA: [char; 9] = ['a', 'あ', '𠮷', ' ', '/', '\\', '-', '|', '\0'];

/// Exhaustive: all strings up to a length over a 9-symbol alphabet x 3 parsers (index = case id).
pub fn run_c05x(ctx: &mut Ctx, from: u64, to: u64) {
    for k in from..to {
        ctx.begin_case(k);
        let mut rng = Rng::new(case_seed(ctx.seed, "C05x", k));
        let s = nth_string(&C05_ALPHA, k);
        for f in [Fmt::Raw, Fmt::Tok, Fmt::Part] {
            c05_one(ctx, f, &s, &mut rng);
        }
        ctx.count("exhaustive_strings", 1);
        if !s.is_empty() {
            ctx.nontrivial(fnv(s.as_bytes()));
        }
        if k < 4352 {
            scalar_block(ctx, k as u32);
        }
    }
}

/// Character types of every Unicode scalar value: block `b` = U+(256*b) .. U+(256*b+255), through
/// the three constructors, against the reference transcription of the documented ranges.
fn scalar_block(ctx: &mut Ctx, b: u32) {
    let chars: Vec<char> = (b * 256..b * 256 + 256).filter_map(char::from_u32).filter(|&c| c != '\0').collect();
    if chars.is_empty() {
        return;
    }
    let plain: Vec<char> = chars.iter().copied().filter(|c| ![' ', '/', '\\', '-', '|'].contains(c)).collect();
    let raw: String = chars.iter().collect();
    let tok: String = plain.iter().collect();
    let part: String = plain.iter().map(|c| c.to_string()).collect::<Vec<_>>().join("-");
    let r = guard(|| {
        let a = Sentence::from_raw(raw.clone()).map(|s| s.char_types().to_vec()).map_err(|e| e.to_string())?;
        let t = Sentence::from_tokenized(&tok).map(|s| s.char_types().to_vec()).map_err(|e| e.to_string())?;
        let p = Sentence::from_partial_annotation(&part).map(|s| s.char_types().to_vec()).map_err(|e| e.to_string())?;
        Ok::<_, String>((a, t, p))
    });
    ctx.eval(3);
    ctx.count("scalar_values_typed_through_all_constructors", chars.len() as u64);
    match r {
        Ok(Ok((a, t, p))) => {
            for (name, got, src) in [("raw", &a, &chars), ("tokenized", &t, &plain), ("partial_annotation", &p, &plain)] {
                let want = text::ctypes(src);
                if *got != want {
                    let at = got.iter().zip(&want).position(|(x, y)| x != y);
                    let detail = match at {
                        Some(i) => J::obj(vec![("code_point", J::s(format!("U+{:04X}", src[i] as u32))), ("observed_type", J::i(got[i])), ("documented_type", J::i(want[i]))]),
                        None => J::obj(vec![("observed_len", J::i(got.len())), ("expected_len", J::i(want.len()))]),
                    };
                    ctx.violation(&format!("C05:{name}:char_types_differ_from_documented_ranges"), detail);
                }
            }
        }
        Ok(Err(e)) => ctx.violation("C05:valid_text_of_one_scalar_block_rejected", J::obj(vec![("block", J::i(b)), ("error", J::s(&e))])),
        Err(p) => ctx.violation(&format!("C05:constructor_panicked_on_scalar_block:{}", panic_site(&p)), J::obj(vec![("block", J::i(b)), ("panic", J::s(&p))])),
    }
}

fn valid_string(rng: &mut Rng, f: Fmt) -> String {
    let rs = gen_round_trip_sentence(rng, f == Fmt::Part);
    match f {
        Fmt::Raw => rs.text().replace('\0', "a"),
        Fmt::Tok => fmt::write_tokenized(&rs),
        Fmt::Part => {
            // reference partial writer with full escaping
            let mut out = String::new();
            for i in 0..rs.chars.len() {
                out.push(rs.chars[i]);
                for t in rs.trimmed(i) {
                    out.push('/');
                    if let Some(t) = t {
                        for c in t.chars() {
                            if [' ', '/', '\\', '-', '|'].contains(&c) {
                                out.push('\\');
                            }
                            out.push(c);
                        }
                    }
                }
                if i + 1 < rs.chars.len() {
                    out.push(match rs.labels[i] {
                        0 => '-',
                        1 => '|',
                        _ => ' ',
                    });
                }
            }
            out
        }
    }
}

fn c05_input(rng: &mut Rng, f: Fmt) -> String {
    if rng.chance(1, 150) {
        // one character carrying several hundred tags
        let n = *rng.pick(&[255usize, 256, 257, 300]);
        let tags: String = (0..n).map(|i| format!("/t{}", i % 7)).collect();
        return match f {
            Fmt::Raw => format!("\u{feff}a{}b", "x".repeat(n)),
            Fmt::Tok => format!("a{tags} bc"),
            Fmt::Part => format!("a{tags}|b-c"),
        };
    }
    if rng.chance(1, 40) {
        // a byte order mark as first character is an ordinary character
        let rest = valid_string(rng, f);
        return format!("\u{feff}{rest}");
    }
    match rng.below(4) {
        0 => text::hostile_string(rng, 24),
        1 => valid_string(rng, f),
        _ => {
            // single-edit mutation of a valid string
            let mut w: Vec<char> = valid_string(rng, f).chars().collect();
            if w.is_empty() {
                return String::new();
            }
            let i = rng.below(w.len());
            const EDIT: &[char] = &[' ', '/', '\\', '-', '|', '\0', 'x', '𠮷'];
            match rng.below(3) {
                0 => {
                    w.remove(i);
                }
                1 => w.insert(i, *rng.pick(EDIT)),
                _ => w[i] = *rng.pick(EDIT),
            }
            w.iter().collect()
        }
    }
}

pub fn run_c05r(ctx: &mut Ctx, from: u64, to: u64) {
    for k in from..to {
        ctx.begin_case(k);
        let mut rng = Rng::new(case_seed(ctx.seed, "C05r", k));
        for f in [Fmt::Raw, Fmt::Tok, Fmt::Part] {
            let s = c05_input(&mut rng, f);
            c05_one(ctx, f, &s, &mut rng);
            ctx.nontrivial(fnv(s.as_bytes()));
            if ctx.want_sample() && !s.is_empty() {
                ctx.sample(J::obj(vec![("format", J::s(f.name())), ("input", J::s(clip(&s, 80))), ("reference_accepts", J::B(ref_parse(f, &s).is_ok()))]));
            }
        }
    }
}

/// Histories of update_* / reset_tags calls on one object; after each step the full observable
/// state is compared with a fresh object that only saw the last update and the resets after it.
pub fn run_c05h(ctx: &mut Ctx, from: u64, to: u64) {
    for k in from..to {
        ctx.begin_case(k);
        let mut rng = Rng::new(case_seed(ctx.seed, "C05h", k));
        let n_ops = rng.urange(1, 6);
        #[derive(Clone, Debug)]
        enum Op {
            Update(Fmt, String),
            Reset(usize),
        }
        let ops: Vec<Op> = (0..n_ops)
            .map(|_| {
                if rng.chance(1, 4) {
                    Op::Reset(rng.below(4))
                } else {
                    let f = *rng.pick(&[Fmt::Raw, Fmt::Tok, Fmt::Part]);
                    let s = if rng.chance(2, 3) { valid_string(&mut rng, f) } else { c05_input(&mut rng, f) };
                    Op::Update(f, s)
                }
            })
            .collect();
        let describe = |ops: &[Op]| {
            J::A(ops
                .iter()
                .map(|o| match o {
                    Op::Update(f, s) => J::s(format!("update_{}({:?})", f.name(), clip(s, 60))),
                    Op::Reset(n) => J::s(format!("reset_tags({n})")),
                })
                .collect())
        };
        let mut s = Sentence::default();
        let mut had_tagged = false;
        for step in 0..ops.len() {
            // the sentence under test
            let op = ops[step].clone();
            let r = guard(|| {
                match &op {
                    Op::Update(f, inp) => {
                        let _ = sut_update(&mut s, *f, inp);
                    }
                    Op::Reset(n) => s.reset_tags(*n),
                }
                observe(&s, false)
            });
            ctx.eval(1);
            // the fresh model: last update + resets after it
            let last_upd = ops[..=step].iter().rposition(|o| matches!(o, Op::Update(..)));
            let model = guard(|| {
                let mut m = Sentence::default();
                let start = match last_upd {
                    Some(i) => {
                        if let Op::Update(f, inp) = &ops[i] {
                            if let Ok(x) = sut_from(*f, inp) {
                                m = x;
                            }
                        }
                        i + 1
                    }
                    None => 0,
                };
                for o in &ops[start..=step] {
                    if let Op::Reset(n) = o {
                        m.reset_tags(*n);
                    }
                }
                observe(&m, false)
            });
            let Ok(model) = model else {
                // the fresh path itself panics: reported by the constructor monitors
                break;
            };
            match r {
                Err(p) => {
                    ctx.violation(
                        &format!("C05:history_step_panicked:{}", panic_site(&p)),
                        J::obj(vec![("history", describe(&ops[..=step])), ("panic", J::s(&p))]),
                    );
                    break;
                }
                Ok(obs) => {
                    if obs != model {
                        ctx.violation(
                            "C05:state_after_history_differs_from_fresh_sentence",
                            J::obj(vec![("history", describe(&ops[..=step])), ("expected", model.to_json()), ("observed", obs.to_json())]),
                        );
                        break;
                    }
                    if obs.n_tags > 0 {
                        had_tagged = true;
                    } else if had_tagged && matches!(ops[step], Op::Update(Fmt::Raw, _)) {
                        ctx.count("histories_with_raw_update_after_tagged_state", 1);
                    }
                }
            }
        }
        ctx.count("history_steps", ops.len() as u64);
        ctx.nontrivial(fnv(format!("{:?}", ops).as_bytes()));
        if ctx.want_sample() {
            ctx.sample(J::obj(vec![("history", describe(&ops))]));
        }
    }
}

/// C08 inside reduced feature configurations: annotation-bearing histories (parsers, reset_tags,
/// direct writes, predictions) on one object, then `update_raw(x); predict` against a fresh sentence.
pub fn run_c08f(ctx: &mut Ctx, from: u64, to: u64) {
    use vgen::gen::{gen_case, GenOpts, TagMode};
    for k in from..to {
        ctx.begin_case(k);
        let mut rng = Rng::new(case_seed(ctx.seed, "C08f", k));
        let mut o = GenOpts::default();
        o.max_text_len = 30;
        o.max_window = 8;
        o.tags = TagMode::Never;
        o.min_texts = 3;
        let case = gen_case(&mut rng, &o);
        let Ok(Ok(pred)) = guard(|| new_predictor(&case.model, false)) else {
            ctx.count("cases_skipped_predictor_construction_failed", 1);
            continue;
        };
        let n_ops = rng.urange(1, 6);
        let mut s: Sentence<'static, '_> = Sentence::default();
        let mut hist: Vec<String> = vec![];
        let mut tagged_before_final = false;
        let mut panicked = false;
        for _ in 0..n_ops {
            let which = rng.below(7);
            let t: String = { let t: &Vec<char> = rng.pick(&case.texts); t.iter().collect() };
            let r = guard(|| match which {
                0 => {
                    let _ = s.update_raw(t.clone());
                    format!("update_raw({:?})", clip(&t, 30))
                }
                1 => {
                    let f = if rng.chance(1, 2) { Fmt::Tok } else { Fmt::Part };
                    let inp = c05_input(&mut rng, f);
                    let _ = sut_update(&mut s, f, &inp);
                    format!("update_{}({:?})", f.name(), clip(&inp, 40))
                }
                2 => {
                    let n = rng.below(4);
                    s.reset_tags(n);
                    format!("reset_tags({n})")
                }
                3 => {
                    for t in s.tags_mut().iter_mut() {
                        *t = Some(std::borrow::Cow::Borrowed("W"));
                    }
                    "write through tags_mut".to_string()
                }
                4 => {
                    for b in s.boundaries_mut().iter_mut() {
                        *b = boundary_of(rng.below(3) as u8);
                    }
                    "write through boundaries_mut".to_string()
                }
                5 => {
                    if rng.chance(1, 2) {
                        let _ = s.update_raw(String::new());
                        "update_raw(\"\")".to_string()
                    } else {
                        let _ = s.update_raw(" ");
                        "update_raw(\" \" borrowed)".to_string()
                    }
                }
                _ => {
                    pred.predict(&mut s);
                    "predict".to_string()
                }
            });
            ctx.eval(1);
            match r {
                Ok(h) => hist.push(h),
                Err(p) => {
                    ctx.violation(&format!("C08:history_step_panicked:{}", panic_site(&p)), J::obj(vec![("history", J::A(hist.iter().map(J::s).collect())), ("panic", J::s(&p))]));
                    panicked = true;
                    break;
                }
            }
            tagged_before_final = s.n_tags() > 0;
        }
        if panicked {
            continue;
        }
        let txt: String = { let t: &Vec<char> = rng.pick(&case.texts); t.iter().collect() };
        let reused = guard(|| {
            s.update_raw(txt.clone()).map_err(|e| e.to_string())?;
            pred.predict(&mut s);
            Ok::<_, String>(observe(&s, false))
        });
        let fresh = guard(|| {
            let mut f = Sentence::from_raw(txt.clone()).map_err(|e| e.to_string())?;
            pred.predict(&mut f);
            Ok::<_, String>(observe(&f, false))
        });
        ctx.eval(2);
        ctx.flag("reduced_build_histories_with_tagged_state_before_final_update", tagged_before_final);
        ctx.count("reduced_build_history_ops", hist.len() as u64);
        let detail = |extra: Vec<(&str, J)>| {
            let mut kv = vec![("history", J::A(hist.iter().map(J::s).collect())), ("final_text", J::s(clip(&txt, 60))), ("model", model_json(&case.model))];
            kv.extend(extra);
            J::obj(kv)
        };
        match (reused, fresh) {
            (Ok(Ok(a)), Ok(Ok(b))) => {
                if a != b {
                    let what = if a.scores != b.scores {
                        "scores"
                    } else if a.labels != b.labels {
                        "boundaries"
                    } else if a.n_tags != b.n_tags {
                        "tag_count"
                    } else if a.tags != b.tags {
                        "tags"
                    } else {
                        "tokens_or_written_output"
                    };
                    ctx.violation(&format!("C08:reused_sentence_differs_from_fresh:{what}"), detail(vec![("reused", a.to_json()), ("fresh", b.to_json())]));
                }
            }
            (Err(p), _) => ctx.violation(&format!("C08:final_prediction_on_reused_sentence_panicked:{}", panic_site(&p)), detail(vec![("panic", J::s(&p))])),
            (_, Err(p)) => ctx.violation(&format!("C08:fresh_prediction_panicked:{}", panic_site(&p)), detail(vec![("panic", J::s(&p))])),
            _ => ctx.violation("C08:update_raw_of_valid_text_failed", detail(vec![])),
        }
        ctx.nontrivial(fnv(format!("{:?}{}", hist, txt).as_bytes()));
    }
}
