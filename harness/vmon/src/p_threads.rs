//! C08 (schedules): one predictor used from many threads at once gives the sequential results.

use std::sync::Arc;

use vaporetto::{Predictor, Sentence};
use vgen::gen::{gen_case, GenOpts, TagMode};
use vgen::json::{clip, J};
use vgen::rng::{case_seed, fnv, Rng};
use vgen::text::{self, to_string};

use crate::ctx::{guard, panic_site, Ctx};
use crate::sut::*;

#[derive(Clone, PartialEq, Eq, Debug)]
struct Res {
    scores: Vec<i32>,
    labels: Vec<u8>,
    n_tags: usize,
    tags: Vec<Option<String>>,
    tokenized: String,
    cands: Vec<Vec<Vec<(String, i32)>>>,
}

fn run_one<'p>(p: &'p Predictor, s: &mut Sentence<'static, 'p>, text: &str, tags: bool, stored: bool) -> Res {
    s.update_raw(text.to_string()).expect("valid text");
    p.predict(s);
    if tags {
        s.fill_tags();
    }
    let mut tokenized = String::new();
    s.write_tokenized_text(&mut tokenized);
    Res {
        scores: s.boundary_scores().to_vec(),
        labels: s.boundaries().iter().map(|&b| label_of(b)).collect(),
        n_tags: s.n_tags(),
        tags: s.tags().iter().map(|t| t.as_ref().map(|c| c.to_string())).collect(),
        tokenized,
        cands: if tags && stored {
            s.iter_tokens()
                .map(|t| t.tag_candidates().into_iter().map(|c| c.into_iter().map(|(n, x)| (n.to_string(), x)).collect()).collect())
                .collect()
        } else {
            vec![]
        },
    }
}

pub fn run_c08t(ctx: &mut Ctx, from: u64, to: u64, tiny: bool, threads_max: usize) {
    for k in from..to {
        ctx.begin_case(k);
        let mut rng = Rng::new(case_seed(ctx.seed, "C08t", k));
        let mut o = if tiny { GenOpts::tiny() } else { GenOpts::default() };
        if !tiny {
            o.max_text_len = 60;
            o.max_window = 12;
        }
        o.tags = TagMode::Maybe;
        o.min_texts = if tiny { 2 } else { 6 };
        o.max_texts = if tiny { 3 } else { 10 };
        let case = gen_case(&mut rng, &o);
        let tags = !case.model.tag_models.is_empty();
        let mut texts: Vec<String> = case.texts.iter().map(|t| to_string(t)).collect();
        if !tiny {
            let alpha: Vec<char> = case.texts.iter().flatten().copied().collect();
            for _ in 0..30 {
                let n = rng.urange(1, 40);
                texts.push(to_string(&text::text_from(&mut rng, &alpha, n)));
            }
        }
        let n_threads = if tiny { 2 } else { rng.urange(2, threads_max.max(2)) };
        let rounds = if tiny { 1 } else { rng.urange(2, 20) };
        let stored = rng.chance(1, 2);
        let fresh_shared = rng.chance(2, 3);
        let r = guard(|| -> Result<(u64, Vec<String>), String> {
            let make = || -> Result<Predictor, String> {
                let mut p0 = new_predictor(&case.model, tags)?;
                if tags {
                    p0.store_tag_scores(stored);
                }
                Ok(p0)
            };
            // sequential baseline on fresh sentences, computed with a SEPARATE predictor object:
            // the shared one below is brand new when the threads start (first-use effects included)
            let pb = make()?;
            let base: Vec<Res> = texts
                .iter()
                .map(|t| {
                    let mut s = Sentence::default();
                    run_one(&pb, &mut s, t, tags, stored)
                })
                .collect();
            let p = Arc::new(if fresh_shared { make()? } else { pb });
            let barrier = Arc::new(std::sync::Barrier::new(n_threads));
            let base = Arc::new(base);
            let texts = Arc::new(texts.clone());
            let mut handles = vec![];
            for ti in 0..n_threads {
                let p = Arc::clone(&p);
                let base = Arc::clone(&base);
                let texts = Arc::clone(&texts);
                let barrier = Arc::clone(&barrier);
                let seed = rng.next_u64() ^ ti as u64;
                handles.push(std::thread::spawn(move || {
                    barrier.wait();
                    let mut r = Rng::new(seed);
                    let mut order: Vec<usize> = (0..texts.len()).collect();
                    let mut s = Sentence::default();
                    let mut bad = vec![];
                    let mut n = 0u64;
                    for round in 0..rounds {
                        // round 0: every thread walks the texts in the same order right after the barrier
                        if round > 0 {
                            r.shuffle(&mut order);
                        }
                        for &i in &order {
                            let got = run_one(&p, &mut s, &texts[i], tags, stored);
                            n += 1;
                            if got != base[i] && bad.len() < 3 {
                                bad.push(format!("thread {ti} text {:?}: {:?} vs sequential {:?}", clip(&texts[i], 40), got, base[i]));
                            }
                        }
                    }
                    (n, bad)
                }));
            }
            let mut total = 0;
            let mut bad = vec![];
            for h in handles {
                let (n, b) = h.join().map_err(|_| "worker thread panicked".to_string())?;
                total += n;
                bad.extend(b);
            }
            Ok((total, bad))
        });
        match r {
            Ok(Ok((n, bad))) => {
                ctx.eval(n);
                ctx.count("concurrent_predictions", n);
                ctx.count("threads_started", n_threads as u64);
                ctx.flag("cases_with_tag_prediction", tags);
                ctx.flag("cases_storing_tag_scores", tags && stored);
                ctx.flag("cases_starting_on_a_never_used_predictor", fresh_shared);
                if !bad.is_empty() {
                    ctx.violation("C08:concurrent_use_of_one_predictor_changes_results", J::obj(vec![("differences", J::strs(&bad)), ("threads", J::i(n_threads)), ("model", model_json(&case.model))]));
                }
                ctx.nontrivial(fnv(format!("{:?}{}{}", case.model.to_bytes(), n_threads, rounds).as_bytes()));
            }
            Ok(Err(e)) => {
                ctx.count("cases_skipped_predictor_construction_failed", 1);
                ctx.note("predictor_error", J::s(&e));
            }
            Err(p) => ctx.violation(&format!("C08:concurrent_prediction_panicked:{}", panic_site(&p)), J::obj(vec![("panic", J::s(&p)), ("model", model_json(&case.model))])),
        }
        if ctx.want_sample() {
            ctx.sample(J::obj(vec![("model", J::s(case.model.summary())), ("threads", J::i(n_threads)), ("rounds", J::i(rounds)), ("texts", J::i(texts.len()))]));
        }
    }
}
