//! Monitors that drive the real command-line binaries: C19 (manipulate_model), C20 (predict,
//! evaluate) and the CLI half of C11 (train).

use std::io::Write;
use std::os::unix::process::ExitStatusExt;
use std::process::{Command, Stdio};

use vaporetto::{Predictor, Sentence};
use vaporetto_rules::SentenceFilter;
use vgen::fmt;
use vgen::gen::{gen_case, gen_weights, GenOpts, TagMode, WClass};
use vgen::json::{clip, J};
use vgen::mirror::{self, ModelData};
use vgen::norm;
use vgen::oracle::ref_partition;
use vgen::rng::{case_seed, fnv, Rng};
use vgen::text::{self, to_string};

use crate::ctx::{guard, panic_site, Ctx};
use crate::p_filters::{FilterSpec, TYPES};
use crate::sut::*;

pub struct RunOut {
    pub code: Option<i32>,
    pub signal: Option<i32>,
    pub stdout: Vec<u8>,
    pub stderr: String,
}

impl RunOut {
    pub fn crashed(&self) -> bool {
        self.signal.is_some() || self.code == Some(101)
    }
    pub fn describe(&self) -> String {
        format!("exit={:?} signal={:?} stderr_tail={:?}", self.code, self.signal, clip(&self.stderr.chars().rev().take(300).collect::<String>().chars().rev().collect::<String>(), 300))
    }
}

pub fn run_bin(ctx: &Ctx, name: &str, args: &[String], stdin: &[u8]) -> Result<RunOut, String> {
    let path = format!("{}/{}", ctx.bins, name);
    let mut child = Command::new(&path)
        .args(args)
        .stdin(Stdio::piped())
        .stdout(Stdio::piped())
        .stderr(Stdio::piped())
        .spawn()
        .map_err(|e| format!("cannot start {path}: {e}"))?;
    let mut sin = child.stdin.take().unwrap();
    let data = stdin.to_vec();
    let th = std::thread::spawn(move || {
        let _ = sin.write_all(&data);
    });
    let out = child.wait_with_output().map_err(|e| format!("wait: {e}"))?;
    let _ = th.join();
    Ok(RunOut { code: out.status.code(), signal: out.status.signal(), stdout: out.stdout, stderr: String::from_utf8_lossy(&out.stderr).to_string() })
}

fn scratch(ctx: &Ctx, name: &str) -> String {
    let d = format!("{}/w{}", ctx.scratch, std::process::id());
    let _ = std::fs::create_dir_all(&d);
    format!("{d}/{name}")
}

fn write_zst(path: &str, bytes: &[u8]) {
    let z = zstd::encode_all(bytes, 3).expect("zstd");
    std::fs::write(path, z).expect("write model");
}

// ------------------------------------------------------------------------------------------ C19 (tool)

const HOSTILE_WORDS: &[&str] = &[
    "a,b", "\"q\"", "x y", " lead", "trail ", "l1\nl2", "c\rd", "é𠮷", "名,\"詞\"", ",", "\"", "'", "a\tb", "#c", "word,weights,comment", "１２", "\r\n", "a\"\"b",
];

pub fn run_c19tool(ctx: &mut Ctx, from: u64, to: u64) {
    for k in from..to {
        ctx.begin_case(k);
        let mut rng = Rng::new(case_seed(ctx.seed, "C19tool", k));
        let mut o = GenOpts::default();
        o.max_text_len = 30;
        o.max_window = 6;
        o.tags = TagMode::Maybe;
        let mut case = gen_case(&mut rng, &o);
        // replace the dictionary by a CSV-hostile one
        let mut dict: Vec<mirror::WordWeightRecord> = vec![];
        let n = if rng.chance(1, 8) { 0 } else { rng.urange(1, 8) };
        for _ in 0..n {
            let w: String = if rng.chance(2, 3) {
                rng.pick(HOSTILE_WORDS).to_string()
            } else {
                let t = rng.pick(&case.texts);
                let l = rng.urange(1, t.len().min(5));
                t[..l].iter().collect()
            };
            if dict.iter().any(|d| d.word == w) {
                continue;
            }
            let len = w.chars().count() + 1;
            let mut weights = gen_weights(&mut rng, len, WClass::Full);
            if rng.chance(1, 2) {
                let i = rng.below(len);
                weights[i] = *rng.pick(&[i32::MAX, i32::MIN, -1, 100_000, -2_000_000_000]);
            }
            if rng.chance(1, 3) {
                // arbitrary 32-bit values (most have more significant bits than a float mantissa holds)
                let i = rng.below(len);
                weights[i] = (rng.next_u64() as i32) | 1;
                ctx.count("weights_with_more_than_24_significant_bits", u64::from(weights[i].unsigned_abs() > (1 << 24)));
            }
            let comment = match rng.below(4) {
                0 => String::new(),
                1 => rng.pick(HOSTILE_WORDS).to_string(),
                2 => "plain comment".to_string(),
                _ => text::hostile_string(&mut rng, 8).replace('\0', ""),
            };
            dict.push(mirror::WordWeightRecord { word: w, weights, comment });
        }
        if !dict.is_empty() && rng.chance(1, 10) {
            // a record repeated verbatim right after itself
            let i = rng.below(dict.len());
            let dup = dict[i].clone();
            dict.insert(i + 1, dup);
            ctx.count("dictionaries_with_repeated_record", 1);
        }
        case.model.dict_model = dict;
        let bytes = case.model.to_bytes();
        let m_in = scratch(ctx, "in.zst");
        let m_out = scratch(ctx, "out.zst");
        let csv = scratch(ctx, "dict.csv");
        write_zst(&m_in, &bytes);
        let _ = std::fs::remove_file(&m_out);
        // the dump path is reused from case to case (an older, usually different-sized dump is already there);
        // every third case starts from a long older file, every third from no file
        match k % 3 {
            0 => {
                let _ = std::fs::remove_file(&csv);
            }
            1 => {
                let old: String = (0..400).map(|i| format!("old{i},1 2 3 4 5,stale entry\n")).collect();
                std::fs::write(&csv, format!("word,weights,comment\n{old}")).unwrap();
                ctx.count("dumps_over_a_longer_existing_file", 1);
            }
            _ => {}
        }
        let detail = |extra: Vec<(&str, J)>| {
            let mut kv = vec![
                ("dictionary", J::A(case.model.dict_model.iter().map(|d| J::obj(vec![("word", J::s(&d.word)), ("weights", J::ints(&d.weights)), ("comment", J::s(&d.comment))])).collect())),
                ("model", J::s(case.model.summary())),
            ];
            kv.extend(extra);
            J::obj(kv)
        };
        ctx.flag("dictionaries_empty", case.model.dict_model.is_empty());
        ctx.count("words_with_comma_quote_or_newline", case.model.dict_model.iter().filter(|d| d.word.contains([',', '"', '\n', '\r'])).count() as u64);
        ctx.count("weights_outside_16_bit", case.model.dict_model.iter().flat_map(|d| &d.weights).filter(|&&w| !(-32768..=32767).contains(&w)).count() as u64);
        ctx.count("non_empty_comments", case.model.dict_model.iter().filter(|d| !d.comment.is_empty()).count() as u64);
        // dump
        let r1 = match run_bin(ctx, "manipulate_model", &["--model-in".into(), m_in.clone(), "--dump-dict".into(), csv.clone()], b"") {
            Ok(r) => r,
            Err(e) => {
                ctx.count("harness_could_not_start_tool", 1);
                ctx.note("tool_start_error", J::s(&e));
                continue;
            }
        };
        ctx.eval(1);
        if r1.code != Some(0) {
            ctx.violation(if r1.crashed() { "C19:dump_dict_crashed" } else { "C19:dump_dict_failed" }, detail(vec![("run", J::s(r1.describe()))]));
            continue;
        }
        let csv_text = std::fs::read(&csv).unwrap_or_default();
        // replace with the untouched dump
        let r2 = run_bin(ctx, "manipulate_model", &["--model-in".into(), m_in.clone(), "--replace-dict".into(), csv.clone(), "--model-out".into(), m_out.clone()], b"").unwrap();
        ctx.eval(1);
        if r2.code != Some(0) {
            ctx.violation(
                if r2.crashed() { "C19:replace_dict_with_own_dump_crashed" } else { "C19:replace_dict_with_own_dump_failed" },
                detail(vec![("run", J::s(r2.describe())), ("csv", J::s(clip(&String::from_utf8_lossy(&csv_text), 600)))]),
            );
            continue;
        }
        let back = std::fs::read(&m_out).ok().and_then(|z| zstd::decode_all(&z[..]).ok()).unwrap_or_default();
        if back != bytes {
            let got = ModelData::from_bytes(&back).map(|m| format!("{:?}", m.0.dict_model)).unwrap_or_else(|e| e);
            ctx.violation(
                "C19:dump_then_replace_does_not_reproduce_the_model",
                detail(vec![("csv", J::s(clip(&String::from_utf8_lossy(&csv_text), 600))), ("dictionary_after", J::s(clip(&got, 800)))]),
            );
            continue;
        }
        // both options in one invocation: the old dictionary is dumped AND the new one is installed
        {
            let mut newd = case.model.dict_model.clone();
            for d in newd.iter_mut() {
                d.weights[0] = d.weights[0].wrapping_add(1).clamp(-100_000, 100_000);
            }
            newd.push(mirror::WordWeightRecord { word: "追加語".into(), weights: vec![1, 2, 3, 4], comment: "added".into() });
            let q = |s: &str| format!("\"{}\"", s.replace('"', "\"\""));
            let mut new_csv = String::from("word,weights,comment\n");
            for d in &newd {
                let ws: Vec<String> = d.weights.iter().map(|w| w.to_string()).collect();
                new_csv.push_str(&format!("{},{},{}\n", q(&d.word), q(&ws.join(" ")), q(&d.comment)));
            }
            let csv_new = scratch(ctx, "new.csv");
            let csv_dump2 = scratch(ctx, "dump2.csv");
            let m_out2 = scratch(ctx, "out2.zst");
            std::fs::write(&csv_new, &new_csv).unwrap();
            let _ = std::fs::remove_file(&csv_dump2);
            let _ = std::fs::remove_file(&m_out2);
            let r4 = run_bin(
                ctx,
                "manipulate_model",
                &["--model-in".into(), m_in.clone(), "--dump-dict".into(), csv_dump2.clone(), "--replace-dict".into(), csv_new.clone(), "--model-out".into(), m_out2.clone()],
                b"",
            )
            .unwrap();
            ctx.eval(1);
            ctx.count("runs_with_dump_and_replace_together", 1);
            if r4.code != Some(0) {
                ctx.violation(if r4.crashed() { "C19:dump_and_replace_together_crashed" } else { "C19:dump_and_replace_together_failed" }, detail(vec![("run", J::s(r4.describe())), ("new_csv", J::s(clip(&new_csv, 600)))]));
                continue;
            }
            let dump2 = std::fs::read(&csv_dump2).unwrap_or_default();
            let back2 = std::fs::read(&m_out2).ok().and_then(|z| zstd::decode_all(&z[..]).ok()).unwrap_or_default();
            let mut want = case.model.clone();
            want.dict_model = newd;
            if dump2 != csv_text {
                ctx.violation("C19:dump_differs_when_replace_is_given_too", detail(vec![("dump_alone", J::s(clip(&String::from_utf8_lossy(&csv_text), 400))), ("dump_with_replace", J::s(clip(&String::from_utf8_lossy(&dump2), 400)))]));
                continue;
            }
            if back2 != want.to_bytes() {
                let got = ModelData::from_bytes(&back2).map(|m| format!("{:?}", m.0.dict_model)).unwrap_or_else(|e| e);
                ctx.violation("C19:replace_ignored_or_wrong_when_dump_is_given_too", detail(vec![("new_csv", J::s(clip(&new_csv, 600))), ("dictionary_after", J::s(clip(&got, 800)))]));
                continue;
            }
        }
        // corrupted CSV: one weight removed / added in one row => rejected, no crash
        if !case.model.dict_model.is_empty() {
            let i = rng.below(case.model.dict_model.len());
            let add = rng.chance(1, 2);
            let mut wtr = String::from("word,weights,comment\n");
            for (j, d) in case.model.dict_model.iter().enumerate() {
                let mut ws: Vec<String> = d.weights.iter().map(|w| w.to_string()).collect();
                if i == j {
                    if add {
                        ws.push("5".into());
                    } else {
                        ws.pop();
                    }
                }
                let q = |s: &str| format!("\"{}\"", s.replace('"', "\"\""));
                wtr.push_str(&format!("{},{},{}\n", q(&d.word), q(&ws.join(" ")), q(&d.comment)));
            }
            std::fs::write(&csv, &wtr).unwrap();
            let _ = std::fs::remove_file(&m_out);
            let r3 = run_bin(ctx, "manipulate_model", &["--model-in".into(), m_in.clone(), "--replace-dict".into(), csv.clone(), "--model-out".into(), m_out.clone()], b"").unwrap();
            ctx.eval(1);
            ctx.count("corrupted_csv_runs", 1);
            if r3.crashed() {
                ctx.violation("C19:record_with_wrong_weight_count_crashes_the_tool", detail(vec![("run", J::s(r3.describe())), ("csv", J::s(clip(&wtr, 600)))]));
            } else if r3.code == Some(0) {
                ctx.violation("C19:record_with_wrong_weight_count_accepted", detail(vec![("csv", J::s(clip(&wtr, 600))), ("row", J::i(i)), ("weight_added", J::B(add))]));
            }
        }
        ctx.nontrivial(fnv(&bytes));
        if ctx.want_sample() {
            ctx.sample(J::obj(vec![("csv_written_by_tool", J::s(clip(&String::from_utf8_lossy(&csv_text), 400))), ("model", J::s(case.model.summary()))]));
        }
    }
}

// ------------------------------------------------------------------------------------------ C20 (predict)

const WS_LETTERS: [&str; 7] = ["D", "R", "H", "T", "K", "O", "G"];

fn ws_filter(letter: &str) -> FilterSpec {
    match letter {
        "G" => FilterSpec::Graphemes,
        l => FilterSpec::WsConst(TYPES.iter().position(|t| t.2 == l).unwrap()),
    }
}

struct Flags {
    no_norm: bool,
    predict_tags: bool,
    scores: bool,
    tag_scores: bool,
    wsconst: Vec<&'static str>,
}

fn flag_args(f: &Flags, model: &str) -> Vec<String> {
    let mut a = vec!["--model".to_string(), model.to_string()];
    if f.no_norm {
        a.push("--no-norm".into());
    }
    if f.predict_tags {
        a.push("--predict-tags".into());
    }
    if f.scores {
        a.push("--scores".into());
    }
    if f.tag_scores {
        a.push("--tag-scores".into());
    }
    for w in &f.wsconst {
        a.push("--wsconst".into());
        a.push(w.to_string());
    }
    a
}

/// Expected stdout of `predict`, computed line by line from library calls on fresh sentences, in
/// the layout: tokenised line, newline, optional score block, optional tag-score block.
fn expected_predict(m: &ModelData, lines: &[String], f: &Flags) -> Result<(String, Vec<Option<fmt::RefSentence>>), String> {
    let mut p = new_predictor(m, f.predict_tags)?;
    let with_tag_scores = f.tag_scores && f.predict_tags;
    if with_tag_scores {
        p.store_tag_scores(true);
    }
    let filters: Vec<Box<dyn SentenceFilter>> = f.wsconst.iter().map(|w| ws_filter(w).build()).collect();
    let mut out = String::new();
    let mut per_line = vec![];
    for line in lines {
        let pre = if f.no_norm { line.clone() } else { norm::normalise(line) };
        let Ok(mut s) = Sentence::from_raw(pre) else {
            out.push('\n');
            per_line.push(None);
            continue;
        };
        p.predict(&mut s);
        for flt in &filters {
            flt.filter(&mut s);
        }
        if f.predict_tags {
            s.fill_tags();
        }
        let mut so = Sentence::from_raw(line.clone()).map_err(|e| format!("{e}"))?;
        so.reset_tags(s.n_tags());
        so.boundaries_mut().copy_from_slice(s.boundaries());
        so.tags_mut().clone_from_slice(s.tags());
        let obs = observe(&so, false);
        // the line the tool must print is written by the reference writer from the accessor state
        let rs = obs.to_ref().ok();
        match &rs {
            Some(r) if !r.labels.contains(&2) => out.push_str(&fmt::write_tokenized(r)),
            _ => out.push_str(&obs.tokenized),
        }
        out.push('\n');
        per_line.push(rs);
        if f.scores {
            let cs: Vec<char> = s.as_raw_text().chars().collect();
            for (i, sc) in s.boundary_scores().iter().enumerate() {
                out.push_str(&format!("{}:{}{} {}\n", i, cs[i], cs[i + 1], sc));
            }
            out.push('\n');
        }
        if with_tag_scores {
            for t in s.iter_tokens() {
                out.push_str(t.surface());
                for cands in t.tag_candidates() {
                    out.push('\t');
                    let parts: Vec<String> = cands.iter().map(|(n, sc)| format!("{n}:{sc}")).collect();
                    out.push_str(&parts.join(","));
                }
                out.push('\n');
            }
            out.push('\n');
        }
    }
    Ok((out, per_line))
}

fn gen_lines(rng: &mut Rng, texts: &[Vec<char>]) -> Vec<String> {
    let n = rng.urange(1, 12);
    let mut v = vec![];
    for i in 0..n {
        let l: String = match rng.below(11) {
            10 => {
                // a line that is one delimiter / escape character, or white space only
                rng.pick(&[" ", "\\", "/", "\t", "\u{3000}", "  ", "\u{3000} "]).to_string()
            }
            0 => String::new(),
            1 => "a\0b".to_string(),
            2 => {
                let t: &Vec<char> = rng.pick(texts);
                let mut s = to_string(t);
                s.push_str("abc-XYZ 12.5%");
                s
            }
            3 => "ｱｲｳ ﾊﾟ /\\ a/b".to_string(),
            4 | 5 => {
                // characters the normaliser maps to another type / the same UTF-8 width, next to kana
                let a = text::alphabet_norm_heavy(rng, 5, i % 2 == 0);
                let n = rng.urange(2, 30);
                to_string(&text::text_from(rng, &a, n))
            }
            _ => {
                let t: &Vec<char> = rng.pick(texts);
                to_string(t)
            }
        };
        // a line is what BufRead::lines yields: no LF; a trailing CR only when the stream had another CR before the
        // line terminator (the stream writer below takes care of that)
        let l: String = l.replace('\n', " ");
        let mut l = l.trim_end_matches('\r').to_string();
        if rng.chance(1, 8) {
            l.push('\r');
            if rng.chance(1, 3) {
                l.push('\r');
            }
        }
        let _ = i;
        v.push(l);
    }
    // consecutive lines that differ only in width (same normalised form): original, normalised spelling, original
    if rng.chance(1, 3) {
        let i = rng.below(v.len());
        let n = norm::normalise(&v[i]);
        if n != v[i] && !v[i].ends_with('\r') {
            let orig = v[i].clone();
            v.insert(i + 1, n);
            v.insert(i + 2, orig);
        }
    }
    v
}

pub fn run_c20p(ctx: &mut Ctx, from: u64, to: u64) {
    for k in from..to {
        ctx.begin_case(k);
        let mut rng = Rng::new(case_seed(ctx.seed, "C20p", k));
        let mut o = GenOpts::default();
        o.max_text_len = 40;
        o.max_window = 8;
        o.tags = TagMode::Maybe;
        let case = gen_case(&mut rng, &o);
        let m = &case.model;
        let model_path = scratch(ctx, "predict-model.zst");
        write_zst(&model_path, &m.to_bytes());
        let lines = gen_lines(&mut rng, &case.texts);
        // LF or CRLF terminators; a line that itself ends with CR needs CRLF (else its CR would be taken for the terminator's)
        let crlf_file = rng.chance(1, 4);
        let mut input = String::new();
        for (i, l) in lines.iter().enumerate() {
            input.push_str(l);
            let last = i + 1 == lines.len();
            let must_terminate = l.is_empty() || l.ends_with('\r');
            if !last || must_terminate || rng.chance(3, 4) {
                input.push_str(if l.ends_with('\r') || crlf_file { "\r\n" } else { "\n" });
            }
        }
        ctx.flag("streams_with_crlf_terminators", crlf_file);
        ctx.flag("streams_with_line_ending_in_cr", lines.iter().any(|l| l.ends_with('\r')));
        ctx.flag("streams_with_empty_first_line", lines[0].is_empty());
        ctx.flag("streams_with_rejected_line", lines.iter().any(|l| l.is_empty() || l.contains('\0')));
        ctx.flag("models_with_tag_models", !m.tag_models.is_empty());
        // all 16 flag subsets, each with a random wsconst list
        for mask in 0..16u32 {
            let mut ws: Vec<&'static str> = vec![];
            for _ in 0..rng.below(3) {
                ws.push(WS_LETTERS[rng.below(7)]);
            }
            let f = Flags { no_norm: mask & 1 != 0, predict_tags: mask & 2 != 0, scores: mask & 4 != 0, tag_scores: mask & 8 != 0, wsconst: ws };
            let args = flag_args(&f, &model_path);
            let detail = |extra: Vec<(&str, J)>| {
                let mut kv = vec![("flags", J::strs(&args[2..])), ("input", J::s(clip(&input, 400))), ("model", model_json(m))];
                kv.extend(extra);
                J::obj(kv)
            };
            let want = match guard(|| expected_predict(m, &lines, &f)) {
                Ok(Ok(w)) => w,
                Ok(Err(e)) => {
                    ctx.count("library_pipeline_failed", 1);
                    ctx.note("library_pipeline_error", J::s(&e));
                    continue;
                }
                Err(p) => {
                    ctx.violation(&format!("C20:library_pipeline_panicked:{}", panic_site(&p)), detail(vec![("panic", J::s(&p))]));
                    continue;
                }
            };
            let r = match run_bin(ctx, "predict", &args, input.as_bytes()) {
                Ok(r) => r,
                Err(e) => {
                    ctx.count("harness_could_not_start_tool", 1);
                    ctx.note("tool_start_error", J::s(&e));
                    continue;
                }
            };
            ctx.eval(1);
            ctx.count(&format!("predict_runs_flags_{:04b}", mask), 1);
            let flagsig = format!("{}{}{}{}", if f.no_norm { "no_norm," } else { "" }, if f.predict_tags { "predict_tags," } else { "" }, if f.scores { "scores," } else { "" }, if f.tag_scores { "tag_scores," } else { "" });
            if r.crashed() {
                ctx.violation(&format!("C20:predict_crashed[{flagsig}]"), detail(vec![("run", J::s(r.describe()))]));
                continue;
            }
            if r.code != Some(0) {
                ctx.violation(&format!("C20:predict_failed[{flagsig}]"), detail(vec![("run", J::s(r.describe()))]));
                continue;
            }
            let got = String::from_utf8_lossy(&r.stdout).to_string();
            if got != want.0 {
                ctx.violation(
                    &format!("C20:predict_output_differs_from_library_pipeline[{flagsig}]"),
                    detail(vec![("expected_stdout", J::s(clip(&want.0, 1200))), ("observed_stdout", J::s(clip(&got, 1200)))]),
                );
                continue;
            }
            // independent check without blocks: every output line unescapes to the input line
            if !f.scores && !f.tag_scores {
                let outs: Vec<&str> = got.split('\n').collect();
                for (i, line) in lines.iter().enumerate() {
                    let o = outs.get(i).copied().unwrap_or("<missing>");
                    let ok = if line.is_empty() || line.contains('\0') {
                        o.is_empty()
                    } else {
                        // (a NUL can only stem from a tag name of the model: it is not part of the text under test)
                        match fmt::parse_tokenized(&o.replace('\0', "\u{fffd}")) {
                            Ok(rs) => rs.text() == *line,
                            Err(_) => false,
                        }
                    };
                    if !ok {
                        ctx.violation(
                            "C20:output_line_does_not_unescape_to_the_input_line",
                            detail(vec![("line_index", J::i(i)), ("input_line", J::s(clip(line, 200))), ("output_line", J::s(clip(o, 200)))]),
                        );
                        break;
                    }
                }
                ctx.count("lines_checked_by_reference_parser", lines.len() as u64);
            }
        }
        ctx.nontrivial(fnv(format!("{:?}{}", m.to_bytes(), input).as_bytes()));
        if ctx.want_sample() {
            ctx.sample(J::obj(vec![("model", J::s(m.summary())), ("input_lines", J::strs(&lines.iter().map(|l| clip(l, 40)).collect::<Vec<_>>())), ("flag_sets", J::i(16))]));
        }
    }
}

// ------------------------------------------------------------------------------------------ C20 (evaluate)

fn fmt_f64(x: f64) -> String {
    format!("{x}")
}

pub fn run_c20e(ctx: &mut Ctx, from: u64, to: u64) {
    for k in from..to {
        ctx.begin_case(k);
        let mut rng = Rng::new(case_seed(ctx.seed, "C20e", k));
        let mut o = GenOpts::default();
        o.max_text_len = 30;
        o.max_window = 6;
        o.flavor = text::Flavor::Line;
        let class = rng.below(3); // 0: untagged refs, no tag prediction; 1: tagged refs + --predict-tags; 2: tagged refs, no --predict-tags
        o.tags = if class == 1 { TagMode::Always } else { TagMode::Maybe };
        let case = gen_case(&mut rng, &o);
        let m = &case.model;
        let model_n_tags = m.n_tags();
        let predict_tags = class == 1;
        let tagged_refs = class >= 1;
        let ref_n_tags = if class == 1 { model_n_tags } else if class == 2 { rng.urange(1, 2) } else { 0 };
        // references
        let mut refs: Vec<fmt::RefSentence> = vec![];
        let identity_only = class == 2;
        let norm_heavy = class != 2 && rng.chance(1, 2);
        let heavy = text::alphabet_norm_heavy(&mut rng, 4, k % 2 == 0);
        ctx.flag("references_with_normaliser_keys_sprinkled", norm_heavy);
        for t in &case.texts {
            let chars: Vec<char> = if identity_only {
                t.iter().map(|&c| norm::normalise_char(c)).collect()
            } else if norm_heavy {
                // keep the model's characters but sprinkle normaliser keys (same-width ones, and without ASCII in half the cases)
                t.iter().map(|&c| if rng.chance(1, 3) { *rng.pick(&heavy) } else { c }).collect()
            } else {
                t.clone()
            };
            let n = chars.len();
            let labels: Vec<u8> = (0..n - 1).map(|_| rng.below(2) as u8).collect();
            let mut tags = vec![vec![]; n];
            if tagged_refs && ref_n_tags > 0 {
                let spans = ref_partition(n, &labels);
                for (si, sp) in spans.iter().enumerate() {
                    let surf: String = chars[sp.start..sp.end].iter().collect();
                    let tm = m.tag_models.iter().find(|t| t.token == surf);
                    let mut ts: Vec<Option<String>> = vec![];
                    for j in 0..ref_n_tags {
                        let cand = tm.and_then(|tm| tm.tags.get(j)).and_then(|c| if c.is_empty() { None } else { Some(c[rng.below(c.len())].clone()) });
                        ts.push(match cand {
                            // (a NUL inside a tag cannot be written into a corpus line: the text formats exclude NUL)
                            // (nor can an empty tag: an empty slot denotes an absent tag)
                            Some(c) if rng.chance(3, 4) && !c.contains('\0') && !c.is_empty() => Some(c),
                            _ if rng.chance(1, 3) => Some("ZZ".to_string()),
                            _ => None,
                        });
                    }
                    if si == 0 {
                        // make the reference's tag count exactly ref_n_tags
                        *ts.last_mut().unwrap() = Some("ZZ".to_string());
                    }
                    tags[sp.end - 1] = ts;
                }
            }
            refs.push(fmt::RefSentence { chars, labels, tags });
        }
        // the same sentence again in its normalised (full-width) spelling: same labels and tags
        if class != 2 && rng.chance(1, 2) {
            let extra: Vec<fmt::RefSentence> = refs
                .iter()
                .filter(|r| r.chars.iter().any(|&c| norm::normalise_char(c) != c))
                .take(2)
                .map(|r| fmt::RefSentence { chars: r.chars.iter().map(|&c| norm::normalise_char(c)).collect(), labels: r.labels.clone(), tags: r.tags.clone() })
                .collect();
            ctx.count("references_repeated_as_width_variant", extra.len() as u64);
            refs.extend(extra);
        }
        // reference sentences made of white space only (not blank lines: they are sentences and count)
        if rng.chance(1, 3) {
            let c = *rng.pick(&['\u{3000}', '\t', '\u{a0}', '\u{2003}']);
            let n = rng.urange(1, 3);
            let labels: Vec<u8> = (0..n - 1).map(|_| rng.below(2) as u8).collect();
            let at = rng.below(refs.len() + 1);
            refs.insert(at, fmt::RefSentence { chars: vec![c; n], labels, tags: vec![vec![]; n] });
            ctx.count("reference_sentences_of_white_space_only", 1);
        }
        let mut input = String::new();
        for r in &refs {
            input.push_str(&fmt::write_tokenized(r));
            input.push('\n');
            if rng.chance(1, 6) {
                input.push('\n');
            }
        }
        let model_path = scratch(ctx, "eval-model.zst");
        write_zst(&model_path, &m.to_bytes());
        let mut ws: Vec<&'static str> = vec![];
        for _ in 0..rng.below(3) {
            ws.push(WS_LETTERS[rng.below(7)]);
        }
        ctx.count(&format!("evaluate_class_{}", ["untagged", "tagged+predict_tags", "tagged_without_predict_tags"][class]), 1);
        let mut results: Vec<(bool, String, String)> = vec![];
        for no_norm in [false, true] {
            for metric in ["char", "word"] {
                let mut args = vec!["--model".to_string(), model_path.clone(), "--metric".into(), metric.into()];
                if no_norm {
                    args.push("--no-norm".into());
                }
                if predict_tags {
                    args.push("--predict-tags".into());
                }
                for w in &ws {
                    args.push("--wsconst".into());
                    args.push(w.to_string());
                }
                let detail = |extra: Vec<(&str, J)>| {
                    let mut kv = vec![("flags", J::strs(&args[2..])), ("input", J::s(clip(&input, 500))), ("model", model_json(m))];
                    kv.extend(extra);
                    J::obj(kv)
                };
                // library side
                let lib = guard(|| -> Result<String, String> {
                    let p = new_predictor(m, predict_tags)?;
                    let filters: Vec<Box<dyn SentenceFilter>> = ws.iter().map(|w| ws_filter(w).build()).collect();
                    let (mut tp, mut tn, mut fp, mut fneg) = (0u64, 0u64, 0u64, 0u64);
                    let (mut n_sys, mut n_ref, mut n_cor) = (0u64, 0u64, 0u64);
                    for r in &refs {
                        let text = if no_norm { r.text() } else { norm::normalise(&r.text()) };
                        let mut s = Sentence::from_raw(text).map_err(|e| format!("{e}"))?;
                        p.predict(&mut s);
                        for f in &filters {
                            f.filter(&mut s);
                        }
                        if predict_tags {
                            s.fill_tags();
                        }
                        let sys = observe(&s, false).to_ref()?;
                        for (a, b) in r.labels.iter().zip(&sys.labels) {
                            match (a, b) {
                                (1, 1) => tp += 1,
                                (0, 0) => tn += 1,
                                (0, 1) => fp += 1,
                                _ => fneg += 1,
                            }
                        }
                        // word metric by set intersection of (span, tags of the last character)
                        let rk = r.max_tags();
                        let key = |x: &fmt::RefSentence, k: usize, sp: &vgen::oracle::Span| {
                            let mut t = x.tags[sp.end - 1].clone();
                            t.resize(k, None);
                            (sp.start, sp.end, t)
                        };
                        let rs: Vec<_> = ref_partition(r.chars.len(), &r.labels).iter().map(|sp| key(r, rk, sp)).collect();
                        let sk = sys.max_tags();
                        let ss: Vec<_> = ref_partition(sys.chars.len(), &sys.labels).iter().map(|sp| key(&sys, sk, sp)).collect();
                        n_ref += rs.len() as u64;
                        n_sys += ss.len() as u64;
                        n_cor += rs.iter().filter(|x| ss.contains(x)).count() as u64;
                    }
                    Ok(if metric == "char" {
                        let p = tp as f64 / (tp + fp) as f64;
                        let r = tp as f64 / (tp + fneg) as f64;
                        let f1 = 2. * p * r / (p + r);
                        format!("Precision: {}\nRecall: {}\nF1: {}\nTP: {tp}, TN: {tn}, FP: {fp}, FN: {fneg}\n", fmt_f64(p), fmt_f64(r), fmt_f64(f1))
                    } else {
                        let p = n_cor as f64 / n_sys as f64;
                        let r = n_cor as f64 / n_ref as f64;
                        let f1 = 2. * p * r / (p + r);
                        format!("Precision: {}\nRecall: {}\nF1: {}\n", fmt_f64(p), fmt_f64(r), fmt_f64(f1))
                    })
                });
                let want = match lib {
                    Ok(Ok(w)) => w,
                    Ok(Err(e)) => {
                        ctx.count("library_pipeline_failed", 1);
                        ctx.note("library_pipeline_error", J::s(&e));
                        continue;
                    }
                    Err(p) => {
                        ctx.violation(&format!("C20:library_pipeline_panicked:{}", panic_site(&p)), detail(vec![("panic", J::s(&p))]));
                        continue;
                    }
                };
                let r = match run_bin(ctx, "evaluate", &args, input.as_bytes()) {
                    Ok(r) => r,
                    Err(e) => {
                        ctx.count("harness_could_not_start_tool", 1);
                        ctx.note("tool_start_error", J::s(&e));
                        continue;
                    }
                };
                ctx.eval(1);
                if r.crashed() || r.code != Some(0) {
                    ctx.violation(if r.crashed() { "C20:evaluate_crashed" } else { "C20:evaluate_failed" }, detail(vec![("run", J::s(r.describe()))]));
                    continue;
                }
                let got = String::from_utf8_lossy(&r.stdout).to_string();
                results.push((no_norm, metric.to_string(), got.clone()));
                // absolute comparison where the comparison of tag vectors is unambiguous
                let absolute = class != 2;
                if absolute && got != want {
                    ctx.violation(
                        &format!("C20:evaluate_{metric}_metric_differs_from_library_predictions"),
                        detail(vec![("expected_stdout", J::s(&want)), ("observed_stdout", J::s(&got))]),
                    );
                } else if absolute {
                    ctx.count(&format!("evaluate_{metric}_runs_compared"), 1);
                }
            }
        }
        // mode equivalence on text the normaliser leaves unchanged (tagged references, no --predict-tags)
        if class == 2 {
            for metric in ["char", "word"] {
                let a = results.iter().find(|r| !r.0 && r.1 == metric);
                let b = results.iter().find(|r| r.0 && r.1 == metric);
                if let (Some(a), Some(b)) = (a, b) {
                    ctx.count("mode_equivalence_pairs_compared", 1);
                    if a.2 != b.2 {
                        ctx.violation(
                            &format!("C20:evaluate_{metric}_metric_differs_between_normalised_and_no_norm_mode_on_normalised_text"),
                            J::obj(vec![("input", J::s(clip(&input, 500))), ("normalised_mode", J::s(&a.2)), ("no_norm_mode", J::s(&b.2)), ("model", model_json(m))]),
                        );
                    }
                }
            }
        }
        ctx.nontrivial(fnv(format!("{:?}{}", m.to_bytes(), input).as_bytes()));
        if ctx.want_sample() {
            ctx.sample(J::obj(vec![("model", J::s(m.summary())), ("reference_input", J::s(clip(&input, 300))), ("class", J::i(class))]));
        }
    }
}

// ------------------------------------------------------------------------------------------ C11 (train binary)

#[cfg(feature = "train")]
pub fn run_c11cli(ctx: &mut Ctx, from: u64, to: u64) {
    for k in from..to {
        ctx.begin_case(k);
        let mut rng = Rng::new(case_seed(ctx.seed, "C11cli", k));
        let classes = [
            crate::p_train::CorpusClass::Normal,
            crate::p_train::CorpusClass::NoWordBoundary,
            crate::p_train::CorpusClass::AmbiguousTags,
            crate::p_train::CorpusClass::PartialAnnotation,
            crate::p_train::CorpusClass::SingleChar,
            crate::p_train::CorpusClass::Empty,
        ];
        let class = classes[(k % classes.len() as u64) as usize];
        let mut tc = crate::p_train::gen_train_case(&mut rng, 0, 4, class, true);
        // the CLI parses text files: keep characters that survive a line-oriented format
        for s in tc.corpus.iter_mut() {
            for c in s.chars.iter_mut() {
                if *c == '\n' || *c == '\r' {
                    *c = '。';
                }
            }
        }
        if k % 6 == 0 {
            // (k % 6 == 0: a tokenized corpus; every other one of these is an LF file trained with normalisation on)
            // a line made of kana and of characters the normaliser maps to others of the same UTF-8 width
            // (no character that grows under normalisation), every token tagged
            let cs: Vec<char> = "｢あ｣､い～―う".chars().collect();
            let n = cs.len();
            let k_tags = tc.corpus.iter().map(|s| s.max_tags()).max().unwrap_or(0).max(1);
            tc.corpus.push(fmt::RefSentence { chars: cs, labels: vec![1; n - 1], tags: vec![vec![Some("S".to_string()); k_tags]; n] });
            ctx.count("corpus_lines_of_same_width_normaliser_keys", 1);
        }
        if k % 6 == 2 {
            // the first line of the corpus starts with U+FEFF (a file saved as "UTF-8 with BOM")
            if let Some(first) = tc.corpus.first_mut() {
                first.chars.insert(0, '\u{feff}');
                first.labels.insert(0, 0);
                first.tags.insert(0, vec![]);
                ctx.count("corpora_whose_first_line_starts_with_u_feff", 1);
            }
        }
        let partial = class == crate::p_train::CorpusClass::PartialAnnotation;
        let mut corpus = String::new();
        for s in &tc.corpus {
            if partial {
                // write through the library (its writer is covered by C04)
                let sent = build_sentence(s);
                let mut b = String::new();
                sent.write_partial_annotation_text(&mut b);
                corpus.push_str(&b);
            } else {
                let mut full = s.clone();
                for l in full.labels.iter_mut() {
                    if *l == 2 {
                        *l = 0;
                    }
                }
                corpus.push_str(&fmt::write_tokenized(&full));
            }
            corpus.push('\n');
        }
        let cpath = scratch(ctx, "corpus.txt");
        let mpath = scratch(ctx, "trained.zst");
        // half of the corpora (and their word lists) come as CRLF files; those runs use --no-norm so that the
        // words of the trained model can be compared with the word list as given
        // (alternating per block of six cases, so that every corpus class meets both kinds of file)
        let crlf = (k / 6) % 2 == 1;
        let corpus_file = if crlf { corpus.replace('\n', "\r\n") } else { corpus.clone() };
        std::fs::write(&cpath, &corpus_file).unwrap();
        let _ = std::fs::remove_file(&mpath);
        let dpath = scratch(ctx, "words.txt");
        let dict_words: Vec<String> = tc.cfg.dict.iter().filter(|w| !w.is_empty() && !w.contains(['\n', '\r', '\0'])).cloned().collect();
        if crlf {
            let mut d = String::new();
            for w in &dict_words {
                let cs: Vec<char> = w.chars().collect();
                let n = cs.len();
                d.push_str(&fmt::write_tokenized(&fmt::RefSentence { chars: cs, labels: vec![0; n - 1], tags: vec![vec![]; n] }));
                d.push_str("\r\n");
            }
            std::fs::write(&dpath, d).unwrap();
            ctx.count("train_cli_runs_on_crlf_files", 1);
        }
        let mut args: Vec<String> = vec![
            if partial { "--part".into() } else { "--tok".into() },
            cpath.clone(),
            "--model".into(),
            mpath.clone(),
            "--charw".into(),
            tc.cfg.char_w.to_string(),
            "--charn".into(),
            tc.cfg.char_n.to_string(),
            "--typew".into(),
            tc.cfg.type_w.to_string(),
            "--typen".into(),
            tc.cfg.type_n.to_string(),
            "--dictn".into(),
            tc.cfg.bucket.to_string(),
            "--solver".into(),
            tc.solver.to_string(),
        ];
        if crlf {
            args.push("--no-norm".into());
            if !dict_words.is_empty() {
                args.push("--dict".into());
                args.push(dpath.clone());
            }
        }
        let r = match run_bin(ctx, "train", &args, b"") {
            Ok(r) => r,
            Err(e) => {
                ctx.count("harness_could_not_start_tool", 1);
                ctx.note("tool_start_error", J::s(&e));
                continue;
            }
        };
        ctx.eval(1);
        ctx.count(if r.code == Some(0) { "train_cli_wrote_model" } else { "train_cli_reported_error" }, 1);
        if r.crashed() {
            ctx.violation("C11:train_cli_crashed", J::obj(vec![("args", J::strs(&args)), ("corpus", J::s(clip(&corpus, 600))), ("run", J::s(r.describe()))]));
        } else if r.code == Some(0) {
            if crlf {
                // the line terminator is not part of the corpus: no learned n-gram may contain CR, and the model's
                // words are exactly the given ones
                if let Some((mir, _)) = std::fs::read(&mpath).ok().and_then(|z| zstd::decode_all(&z[..]).ok()).and_then(|b| ModelData::from_bytes(&b).ok()) {
                    let cr_ngram = mir.char_ngram_model.iter().find(|d| d.ngram.contains('\r')).map(|d| d.ngram.clone());
                    let got: std::collections::BTreeSet<String> = mir.dict_model.iter().map(|d| d.word.clone()).collect();
                    let want: std::collections::BTreeSet<String> = dict_words.iter().cloned().collect();
                    if cr_ngram.is_some() || got != want {
                        ctx.violation(
                            "C10:train_tool_takes_line_terminators_of_crlf_files_for_text",
                            J::obj(vec![
                                ("ngram_with_cr", J::s(format!("{:?}", cr_ngram))),
                                ("model_words", J::s(clip(&format!("{:?}", got), 300))),
                                ("given_words", J::s(clip(&format!("{:?}", want), 300))),
                                ("args", J::strs(&args)),
                            ]),
                        );
                    }
                    ctx.count("models_trained_from_crlf_files_inspected", 1);
                }
            }
            if !crlf {
                // normalisation is on: everything the model stores is text in normalised form
                if let Some((mir, _)) = std::fs::read(&mpath).ok().and_then(|z| zstd::decode_all(&z[..]).ok()).and_then(|b| ModelData::from_bytes(&b).ok()) {
                    let raw: Option<String> = mir
                        .char_ngram_model
                        .iter()
                        .map(|d| d.ngram.clone())
                        .chain(mir.dict_model.iter().map(|d| d.word.clone()))
                        .chain(mir.tag_models.iter().map(|t| t.token.clone()))
                        .find(|x| norm::normalise(x) != *x);
                    if let Some(x) = raw {
                        ctx.violation(
                            "C12:model_trained_by_the_tool_contains_text_the_normaliser_changes",
                            J::obj(vec![("stored_text", J::s(&x)), ("normalised", J::s(norm::normalise(&x))), ("args", J::strs(&args)), ("corpus", J::s(clip(&corpus, 400)))]),
                        );
                    }
                    ctx.count("models_trained_with_normalisation_inspected", 1);
                }
            }
            // the written model must be usable by predict
            let rp = run_bin(ctx, "predict", &["--model".into(), mpath.clone(), "--predict-tags".into()], corpus.replace(' ', "").as_bytes()).unwrap();
            ctx.eval(1);
            if rp.crashed() || rp.code != Some(0) {
                ctx.violation("C11:model_written_by_train_cli_unusable_by_predict_cli", J::obj(vec![("args", J::strs(&args)), ("corpus", J::s(clip(&corpus, 600))), ("run", J::s(rp.describe()))]));
            }
        }
        ctx.nontrivial(fnv(format!("{:?}{}", args, corpus).as_bytes()));
    }
}

// ------------------------------------------------------------------------------------------ C17 (tool)

/// The `convert_kytea_model` tool must store exactly the model the library conversion yields
/// (compressed), also when that model is larger than any internal buffer of the compressor.
pub fn run_c17cli(ctx: &mut Ctx, from: u64, to: u64) {
    use vaporetto::{KyteaModel, Model};
    for k in from..to {
        ctx.begin_case(k);
        let mut rng = Rng::new(case_seed(ctx.seed, "C17cli", k));
        let (mut spec, _texts) = vgen::kytea::gen_spec(&mut rng);
        if (spec.char_ngrams.is_empty() || spec.type_ngrams.is_empty()) && !spec.empty_tries_present {
            // rejected by design (see C17): nothing to convert
            ctx.count("specs_skipped_without_ngram_sections", 1);
            continue;
        }
        let enlarge = k % 3 == 0 && spec.n_dicts > 0 && spec.char_map.len() >= 4;
        if enlarge {
            let pool: Vec<char> = spec.char_map.iter().copied().take(64).collect();
            let mut seen: std::collections::HashSet<Vec<char>> = spec.words.iter().map(|w| w.0.clone()).collect();
            let target = rng.urange(5000, 9000);
            let mut guard_n = 0;
            while seen.len() < target && guard_n < 100_000 {
                guard_n += 1;
                let n = rng.urange(4, 9);
                let w: Vec<char> = (0..n).map(|_| *rng.pick(&pool)).collect();
                if seen.insert(w.clone()) {
                    spec.words.push((w, 1));
                }
            }
        }
        let bytes = spec.emit();
        let lib = guard(|| -> Result<Vec<u8>, String> {
            let mut cur = std::io::Cursor::new(&bytes);
            let km = KyteaModel::read(&mut cur).map_err(|e| format!("read: {e}"))?;
            let m = Model::try_from(km).map_err(|e| format!("convert: {e}"))?;
            m.to_vec().map_err(|e| format!("to_vec: {e}"))
        });
        ctx.eval(1);
        let lib = match lib {
            Ok(Ok(b)) => b,
            Ok(Err(_)) => {
                ctx.count("specs_rejected_by_library_conversion", 1);
                continue;
            }
            Err(p) => {
                ctx.violation(&format!("C17:conversion_panicked:{}", panic_site(&p)), J::obj(vec![("panic", J::s(&p)), ("file_hex", J::hex(&bytes[..bytes.len().min(2048)]))]));
                continue;
            }
        };
        let kin = scratch(ctx, "kytea.bin");
        let mout = scratch(ctx, "converted.zst");
        std::fs::write(&kin, &bytes).unwrap();
        let _ = std::fs::remove_file(&mout);
        let workers = if k % 5 == 1 { "2" } else { "0" };
        let args: Vec<String> = vec!["--model-in".into(), kin.clone(), "--model-out".into(), mout.clone(), "--zstd-workers".into(), workers.into()];
        let out = match run_bin(ctx, "convert_kytea_model", &args, b"") {
            Ok(o) => o,
            Err(e) => panic!("HARNESS: {e}"),
        };
        ctx.eval(1);
        let detail = |extra: Vec<(&str, J)>| {
            let mut kv = vec![("kytea_file_bytes", J::i(bytes.len())), ("library_model_bytes", J::i(lib.len())), ("words_in_file", J::i(spec.words.len())), ("file_hex", J::hex(&bytes[..bytes.len().min(1024)]))];
            kv.extend(extra);
            J::obj(kv)
        };
        if out.crashed() || out.code != Some(0) {
            ctx.violation("C17:convert_tool_failed_on_file_the_library_converts", detail(vec![("run", J::s(out.describe()))]));
            continue;
        }
        let stored = std::fs::read(&mout).ok().and_then(|z| zstd::decode_all(&z[..]).ok());
        match stored {
            Some(b) if b == lib => {
                ctx.count("tool_conversions_equal_to_library_conversion", 1);
                if lib.len() > 128 * 1024 {
                    ctx.count("converted_models_larger_than_128KiB", 1);
                }
                ctx.nontrivial(fnv(&lib));
            }
            Some(b) => ctx.violation(
                "C17:model_stored_by_convert_tool_differs_from_library_conversion",
                detail(vec![("stored_bytes", J::i(b.len())), ("is_proper_prefix", J::B(b.len() < lib.len() && lib.starts_with(&b)))]),
            ),
            None => ctx.violation("C17:convert_tool_output_missing_or_not_zstd", detail(vec![])),
        }
    }
}

// ------------------------------------------------------------------------------------------ C07 (tools)

/// A model-writing tool whose output device fails (every write to /dev/full returns ENOSPC) must
/// report the failure through its exit status: a success status would stand for a model file that
/// was never (completely) written.
pub fn run_c07cli(ctx: &mut Ctx, from: u64, to: u64) {
    if !std::path::Path::new("/dev/full").exists() {
        ctx.count("skipped_no_dev_full", 1);
        return;
    }
    for k in from..to {
        ctx.begin_case(k);
        let mut rng = Rng::new(case_seed(ctx.seed, "C07cli", k));
        let mut o = GenOpts::default();
        o.max_text_len = 30;
        o.max_window = 4;
        o.tags = TagMode::Maybe;
        let case = gen_case(&mut rng, &o);
        let m_in = scratch(ctx, "full-in.zst");
        write_zst(&m_in, &case.model.to_bytes());
        let mut runs: Vec<(&str, Vec<String>)> = vec![];
        runs.push(("manipulate_model", vec!["--model-in".into(), m_in.clone(), "--model-out".into(), "/dev/full".into()]));
        if k % 3 == 0 {
            runs.push(("convert_kytea_model", vec!["--model-in".into(), "/repo/resources/kytea-model.bin".into(), "--model-out".into(), "/dev/full".into()]));
        }
        if k % 3 == 1 {
            let cpath = scratch(ctx, "full-corpus.txt");
            std::fs::write(&cpath, "まぁ/名詞 社長/名詞 は/助詞 火星/名詞 猫/名詞 だ/助動詞\nあ い う\n").unwrap();
            runs.push(("train", vec!["--tok".into(), cpath, "--model".into(), "/dev/full".into()]));
        }
        for (tool, args) in runs {
            let r = match run_bin(ctx, tool, &args, b"") {
                Ok(r) => r,
                Err(e) => panic!("HARNESS: {e}"),
            };
            ctx.eval(1);
            ctx.count(&format!("runs_with_failing_output_device:{tool}"), 1);
            if r.code == Some(0) {
                ctx.violation(
                    &format!("C07:tool_reports_success_although_model_could_not_be_written:{tool}"),
                    J::obj(vec![("args", J::strs(&args)), ("run", J::s(r.describe()))]),
                );
            } else if r.signal.is_some() {
                ctx.violation(&format!("C07:tool_killed_by_signal_on_failing_output:{tool}"), J::obj(vec![("args", J::strs(&args)), ("run", J::s(r.describe()))]));
            }
        }
        // a model file that compresses extremely well (a large, regular, script-generated dictionary) loads like any other
        if k % 8 == 3 {
            let mut big = case.model.clone();
            big.dict_model = (0..20_000usize)
                .map(|i| mirror::WordWeightRecord { word: format!("w{:07}", i), weights: vec![0, 0, 0, 0, 0, 0, 0, 1, 0], comment: "generated entry".into() })
                .collect();
            let bytes = big.to_bytes();
            let path = scratch(ctx, "full-compressible.zst");
            write_zst(&path, &bytes);
            let ratio = bytes.len() as u64 / std::fs::metadata(&path).map(|m| m.len()).unwrap_or(1).max(1);
            let r = run_bin(ctx, "predict", &["--model".into(), path.clone()], "a\n".as_bytes()).unwrap();
            ctx.eval(1);
            ctx.count("highly_compressible_models_loaded_by_predict", u64::from(ratio >= 32));
            if r.code != Some(0) {
                ctx.violation(
                    "C07:tool_rejects_valid_model_file_that_compresses_well",
                    J::obj(vec![("compression_ratio", J::i(ratio)), ("model_bytes", J::i(bytes.len())), ("run", J::s(r.describe()))]),
                );
            }
        }
        // rewriting a model in place (output path = input path) must leave a complete, equal model behind
        if k % 4 == 1 {
            let same = scratch(ctx, "full-inplace.zst");
            write_zst(&same, &case.model.to_bytes());
            let r = run_bin(ctx, "manipulate_model", &["--model-in".into(), same.clone(), "--model-out".into(), same.clone()], b"").unwrap();
            ctx.eval(1);
            ctx.count("models_rewritten_in_place", 1);
            let back = std::fs::read(&same).ok().and_then(|z| zstd::decode_all(&z[..]).ok());
            if r.code == Some(0) && back.as_deref() != Some(&case.model.to_bytes()[..]) {
                ctx.violation(
                    "C07:tool_reports_success_but_model_rewritten_in_place_is_damaged",
                    J::obj(vec![("file_bytes_after", J::i(std::fs::metadata(&same).map(|m| m.len()).unwrap_or(0))), ("run", J::s(r.describe()))]),
                );
            } else if r.crashed() {
                ctx.violation("C07:tool_crashed_rewriting_model_in_place", J::obj(vec![("run", J::s(r.describe()))]));
            }
        }
        // a model file written by a tool and then cut short by a few bytes must be refused by the tools
        if k % 2 == 0 {
            let good = scratch(ctx, "full-good.zst");
            let _ = std::fs::remove_file(&good);
            let w = run_bin(ctx, "manipulate_model", &["--model-in".into(), m_in.clone(), "--model-out".into(), good.clone()], b"").unwrap();
            ctx.eval(1);
            if w.code != Some(0) {
                ctx.violation("C07:tool_cannot_rewrite_a_valid_model", J::obj(vec![("run", J::s(w.describe()))]));
            } else if let Ok(z) = std::fs::read(&good) {
                let cuts: Vec<usize> = [1usize, 2, 3, 4, 5, 8, z.len() / 2].iter().copied().filter(|&c| c < z.len()).collect();
                for cut in cuts {
                    let tpath = scratch(ctx, "full-trunc.zst");
                    std::fs::write(&tpath, &z[..z.len() - cut]).unwrap();
                    let sink = scratch(ctx, "full-sink.zst");
                    let r1 = run_bin(ctx, "manipulate_model", &["--model-in".into(), tpath.clone(), "--model-out".into(), sink.clone()], b"").unwrap();
                    let r2 = run_bin(ctx, "predict", &["--model".into(), tpath.clone()], "a\n".as_bytes()).unwrap();
                    ctx.eval(2);
                    ctx.count("truncated_tool_written_files_offered_to_tools", 1);
                    for (tool, r) in [("manipulate_model", &r1), ("predict", &r2)] {
                        if r.code == Some(0) {
                            ctx.violation(
                                &format!("C07:tool_accepts_model_file_cut_short:{tool}"),
                                J::obj(vec![("bytes_removed_from_end", J::i(cut)), ("file_bytes", J::i(z.len())), ("run", J::s(r.describe()))]),
                            );
                        }
                    }
                }
            }
        }
        ctx.nontrivial(fnv(&case.model.to_bytes()));
    }
}
