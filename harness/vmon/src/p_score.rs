//! C01 (boundary scores), C06 (tags), C14 (serialised predictor), C18 (unsafe surface).

use vaporetto::{Predictor, Sentence};
use vgen::fmt::RefSentence;
use vgen::gen::{gen_case, gen_labels, Case, GenOpts, TagMode};
use vgen::json::{clip, J};
use vgen::mirror::ModelData;
use vgen::oracle::*;
use vgen::rng::{case_seed, fnv, Rng};
use vgen::text::{ctypes, to_string};

use crate::ctx::{guard, panic_site, Ctx};
use crate::sut::*;

pub fn case_digest(case: &Case) -> u64 {
    let mut b = case.model.to_bytes();
    for t in &case.texts {
        b.extend_from_slice(to_string(t).as_bytes());
        b.push(0);
    }
    fnv(&b)
}

fn case_json(case: &Case, text: Option<&[char]>) -> J {
    let mut kv = vec![("model", model_json(&case.model)), ("weight_class", J::s(case.weight_class))];
    if let Some(t) = text {
        kv.push(("text", J::s(clip(&to_string(t), 200))));
    } else {
        kv.push(("texts", J::A(case.texts.iter().map(|t| J::s(clip(&to_string(t), 60))).collect())));
    }
    J::obj(kv)
}

fn first_diff<T: PartialEq>(a: &[T], b: &[T]) -> Option<usize> {
    if a.len() != b.len() {
        return Some(a.len().min(b.len()));
    }
    a.iter().zip(b).position(|(x, y)| x != y)
}

pub struct PredOutcome {
    pub ok: bool,
    pub refscores: Vec<i64>,
}

/// Predicts `text` with `pred` starting from a randomly annotated sentence and compares with the
/// reference scorer. Returns the sentence for further checks.
#[allow(clippy::too_many_arguments)]
pub fn predict_and_check<'p>(
    ctx: &mut Ctx,
    prop: &str,
    case: &Case,
    text: &[char],
    pred: &'p Predictor,
    rng: &mut Rng,
    variant: &str,
    start_tags: bool,
    warm: Option<&'p Predictor>,
) -> Option<(Sentence<'static, 'p>, Vec<i64>)> {
    let warm_has_tags = variant.starts_with("tag predictor");
    let n = text.len();
    let refs = ref_scores(&case.model, text);
    if refs.iter().any(|&s| s > i64::from(i32::MAX) || s < i64::from(i32::MIN)) {
        ctx.count("excluded_sum_leaves_i32", 1);
        return None;
    }
    // start from an arbitrary earlier annotation (incl. unknowns and tags)
    let mut rs = RefSentence { chars: text.to_vec(), labels: gen_labels(rng, n - 1, 10), tags: vec![vec![]; n] };
    if start_tags && rng.chance(1, 4) {
        for t in rs.tags.iter_mut() {
            if rng.chance(1, 2) {
                t.push(Some("X".to_string()));
            }
        }
    }
    let warm_fill = rng.chance(1, 2);
    let repredict = rng.chance(1, 5);
    ctx.flag("sentences_predicted_twice_in_a_row", repredict);
    let relabel = repredict && rng.chance(1, 2);
    ctx.flag("sentences_relabelled_between_two_predictions", relabel);
    let built = guard(|| {
        let mut s = build_sentence(&rs);
        if let Some(w) = warm {
            // the same sentence object was analysed by another tag predictor just before
            w.predict(&mut s);
            if warm_fill && warm_has_tags {
                s.fill_tags();
            }
        }
        pred.predict(&mut s);
        if repredict {
            // predicting the same sentence again must give the same scores (nothing accumulates) and
            // decide every boundary again, whatever a caller wrote into the labels in between
            if relabel {
                for (i, b) in s.boundaries_mut().iter_mut().enumerate() {
                    *b = boundary_of(((i + n) % 3) as u8);
                }
            }
            pred.predict(&mut s);
        }
        s
    });
    let s = match built {
        Ok(s) => s,
        Err(p) => {
            ctx.violation(
                &format!("{prop}:predict_panicked:{}", panic_site(&p)),
                J::obj(vec![("panic", J::s(&p)), ("variant", J::s(variant)), ("case", case_json(case, Some(text)))]),
            );
            return None;
        }
    };
    ctx.eval(1);
    let scores = s.boundary_scores().to_vec();
    let labels: Vec<u8> = s.boundaries().iter().map(|&b| label_of(b)).collect();
    if scores.len() != n - 1 || labels.len() != n - 1 {
        ctx.violation(
            &format!("{prop}:score_vector_length"),
            J::obj(vec![
                ("n_chars", J::i(n)),
                ("scores_len", J::i(scores.len())),
                ("variant", J::s(variant)),
                ("case", case_json(case, Some(text))),
            ]),
        );
        return None;
    }
    let got: Vec<i64> = scores.iter().map(|&x| i64::from(x)).collect();
    if let Some(b) = first_diff(&got, &refs) {
        ctx.violation(
            &format!("{prop}:score_differs_from_reference"),
            J::obj(vec![
                ("boundary", J::i(b)),
                ("expected", J::ints(&refs[..refs.len().min(64)])),
                ("observed", J::ints(&got[..got.len().min(64)])),
                ("variant", J::s(variant)),
                ("case", case_json(case, Some(text))),
            ]),
        );
        return None;
    }
    let want: Vec<u8> = refs.iter().map(|&s| u8::from(s > 0)).collect();
    if let Some(b) = first_diff(&labels, &want) {
        ctx.violation(
            &format!("{prop}:decision_differs_from_sign_of_score"),
            J::obj(vec![
                ("boundary", J::i(b)),
                ("score", J::i(refs[b])),
                ("observed_label", J::i(labels[b])),
                ("variant", J::s(variant)),
                ("case", case_json(case, Some(text))),
            ]),
        );
        return None;
    }
    Some((s, refs))
}

fn count_model_facts(ctx: &mut Ctx, m: &ModelData) {
    let f = model_facts(m);
    ctx.flag("cases_with_suffix_related_patterns", f.suffix_related);
    ctx.flag("cases_with_equal_ngram_and_word", f.equal_entries);
    ctx.flag("cases_with_value_equal_weight_vectors_at_different_lengths", f.value_equal_weights);
    ctx.flag("cases_with_weight_vectors_longer_than_8", f.long_weights);
    ctx.flag("cases_with_weight_vectors_up_to_8", f.short_weights);
    let wt = m.type_window_size;
    let has_tags = !m.tag_models.is_empty();
    ctx.flag("type_scorer_cached_table(Wt<=3,no_tags)", wt <= 3 && !m.type_ngram_model.is_empty());
    ctx.flag("type_scorer_automaton(Wt>3)", wt > 3 && !m.type_ngram_model.is_empty());
    ctx.flag("models_with_tag_models", has_tags);
    ctx.flag("windows_differ", m.char_window_size != m.type_window_size);
    ctx.flag("window_ge_9", m.char_window_size >= 9 || m.type_window_size >= 9);
}

fn count_score_facts(ctx: &mut Ctx, m: &ModelData, text: &[char], refs: &[i64]) -> u64 {
    let f = score_facts(m, text, refs);
    ctx.count("char_ngram_occurrences", f.char_occ);
    ctx.count("type_ngram_occurrences", f.type_occ);
    ctx.count("dict_word_occurrences", f.dict_occ);
    ctx.count("occurrences_overhanging_left_edge", f.overhang_left);
    ctx.count("occurrences_overhanging_right_edge", f.overhang_right);
    ctx.count("boundaries_with_score_exactly_0", f.zero_scores);
    ctx.count("matched_chars_2_bytes", f.multibyte_in_match[2]);
    ctx.count("matched_chars_3_bytes", f.multibyte_in_match[3]);
    ctx.count("matched_chars_4_bytes", f.multibyte_in_match[4]);
    ctx.count("texts_longer_than_300", u64::from(text.len() > 300));
    ctx.count("texts_longer_than_65535", u64::from(text.len() > 65535));
    f.char_occ + f.type_occ + f.dict_occ
}

/// `restored`: the predictor goes through `serialize_to_vec` / `deserialize_from_slice_unchecked` (placed at an
/// odd offset of a larger buffer, followed by other bytes) before it is used.
fn make_predictor_restored(ctx: &mut Ctx, prop: &str, case: &Case, tags: bool, shift: usize) -> Option<Predictor> {
    let p = make_predictor(ctx, prop, case, tags)?;
    let r = guard(|| -> Result<Predictor, String> {
        let ser = p.serialize_to_vec().map_err(|e| format!("serialize_to_vec: {e}"))?;
        let mut buf = vec![0xA5u8; shift];
        buf.extend_from_slice(&ser);
        buf.extend_from_slice(b"\x01\x02\x03");
        // SAFETY: the bytes were produced by serialize_to_vec.
        let (q, rest) = unsafe { Predictor::deserialize_from_slice_unchecked(&buf[shift..]) }.map_err(|e| format!("deserialize_from_slice_unchecked at offset {shift}: {e}"))?;
        if rest != b"\x01\x02\x03" {
            return Err(format!("remaining slice has {} bytes, 3 were appended (buffer offset {shift})", rest.len()));
        }
        Ok(q)
    });
    ctx.count("predictors_restored_from_their_serialised_form", 1);
    match r {
        Ok(Ok(q)) => Some(q),
        Ok(Err(e)) => {
            ctx.violation(&format!("{prop}:restoring_serialised_predictor_failed"), J::obj(vec![("error", J::s(&e)), ("case", case_json(case, None))]));
            None
        }
        Err(pn) => {
            ctx.violation(&format!("{prop}:restoring_serialised_predictor_panicked:{}", panic_site(&pn)), J::obj(vec![("panic", J::s(&pn)), ("case", case_json(case, None))]));
            None
        }
    }
}

fn make_predictor(ctx: &mut Ctx, prop: &str, case: &Case, tags: bool) -> Option<Predictor> {
    match guard(|| new_predictor(&case.model, tags)) {
        Ok(Ok(p)) => Some(p),
        Ok(Err(e)) => {
            ctx.violation(
                &format!("{prop}:well_formed_model_rejected"),
                J::obj(vec![("error", J::s(&e)), ("predict_tags", J::B(tags)), ("case", case_json(case, None))]),
            );
            None
        }
        Err(p) => {
            ctx.violation(
                &format!("{prop}:predictor_new_panicked:{}", panic_site(&p)),
                J::obj(vec![("panic", J::s(&p)), ("predict_tags", J::B(tags)), ("case", case_json(case, None))]),
            );
            None
        }
    }
}

pub fn opts_for(ctx: &Ctx, k: u64, tags: TagMode, tiny: bool) -> GenOpts {
    let mut o = if tiny { GenOpts::tiny() } else { GenOpts::default() };
    o.tags = tags;
    if !tiny && k % 512 == 77 {
        // one sentence with character positions beyond 65535
        o.force_long_text = Some(66_000);
    }
    if !tiny {
        if ctx.tier_thorough {
            // the tail (W up to 255, texts up to 2000) in 1 of 8 cases, else moderate sizes
            if k % 8 != 0 {
                o.max_text_len = 120;
            }
        } else if k % 16 != 0 {
            o.max_text_len = 60;
        } else {
            o.max_text_len = 400;
        }
    }
    o
}

/// `Sentence::default()` (the one-space sentence) handed straight to `predict`, with models whose patterns
/// match a space: behaves like `from_raw(" ")` — no boundary, no score, no panic.
fn default_sentence_prediction(ctx: &mut Ctx) {
    let r = guard(|| -> Result<(Obs, Obs), String> {
        let m = ModelData {
            char_ngram_model: vec![vgen::mirror::NgramData { ngram: " ".into(), weights: vec![5, -5] }],
            dict_model: vec![vgen::mirror::WordWeightRecord { word: " ".into(), weights: vec![3, 4], comment: String::new() }],
            type_ngram_model: vec![vgen::mirror::NgramData { ngram: vec![6], weights: vec![1, 2] }],
            bias: 1,
            char_window_size: 1,
            type_window_size: 1,
            ..ModelData::default()
        };
        let p = new_predictor(&m, false)?;
        let mut d = Sentence::default();
        p.predict(&mut d);
        let mut f = Sentence::from_raw(" ").map_err(|e| e.to_string())?;
        p.predict(&mut f);
        Ok((observe(&d, false), observe(&f, false)))
    });
    ctx.eval(1);
    ctx.count("default_sentences_predicted_directly", 1);
    match r {
        Ok(Ok((d, f))) => {
            if d != f || !d.scores.is_empty() {
                ctx.violation("C01:default_sentence_predicts_differently_from_the_same_raw_text", J::obj(vec![("default", d.to_json()), ("from_raw", f.to_json())]));
            }
        }
        Ok(Err(e)) => ctx.violation("C01:well_formed_model_rejected", J::s(&e)),
        Err(p) => ctx.violation(&format!("C01:predict_panicked:{}", panic_site(&p)), J::obj(vec![("panic", J::s(&p)), ("variant", J::s("Sentence::default()"))])),
    }
}

pub fn run_c01(ctx: &mut Ctx, from: u64, to: u64, tiny: bool) {
    for k in from..to {
        ctx.begin_case(k);
        let mut rng = Rng::new(case_seed(ctx.seed, "C01", k));
        let case = if k % 61 == 9 && !tiny {
            ctx.count("cases_with_entry_cancelling_its_suffix_chain", 1);
            vgen::gen::cancelling_case(&mut rng).0
        } else {
            gen_case(&mut rng, &opts_for(ctx, k, TagMode::Maybe, tiny))
        };
        count_model_facts(ctx, &case.model);
        if k % 64 == 21 {
            default_sentence_prediction(ctx);
        }
        let Some(p_plain) = (if k % 6 == 5 && !tiny { make_predictor_restored(ctx, "C01", &case, false, (k % 16) as usize) } else { make_predictor(ctx, "C01", &case, false) }) else { continue };
        let p_tag = if case.model.tag_models.is_empty() { None } else { make_predictor(ctx, "C01", &case, true) };
        let other = if k % 4 == 0 { new_predictor(&perturb(&case.model, &case.texts, &mut rng), false).ok() } else { None };
        let mut occ = 0;
        for text in &case.texts {
            let Some((_s, refs)) = predict_and_check(ctx, "C01", &case, text, &p_plain, &mut rng, "predict_tags=false", true, other.as_ref())
            else {
                continue;
            };
            occ += count_score_facts(ctx, &case.model, text, &refs);
            if let Some(pt) = p_tag.as_ref() {
                let _ = predict_and_check(ctx, "C01", &case, text, pt, &mut rng, "predict_tags=true", true, None);
            }
        }
        if occ > 0 {
            ctx.nontrivial(case_digest(&case));
        }
        if ctx.want_sample() {
            let refs = ref_scores(&case.model, &case.texts[0]);
            ctx.sample(J::obj(vec![
                ("model", J::s(case.model.summary())),
                ("text", J::s(clip(&to_string(&case.texts[0]), 60))),
                ("reference_scores", J::ints(&refs[..refs.len().min(20)])),
                ("pattern_occurrences_in_case", J::i(occ)),
            ]));
        }
    }
}

/// A different model over the same texts: some patterns dropped, others added (pattern ids shift,
/// and the other model matches at positions where this one does not), tag models reordered.
fn perturb(m: &ModelData, texts: &[Vec<char>], rng: &mut Rng) -> ModelData {
    let mut p = m.clone();
    p.char_ngram_model.retain(|_| rng.chance(1, 2));
    p.type_ngram_model.retain(|_| rng.chance(1, 2));
    p.dict_model.retain(|_| rng.chance(1, 2));
    for t in p.tag_models.iter_mut() {
        t.char_ngram_model.retain(|_| rng.chance(2, 3));
        t.type_ngram_model.retain(|_| rng.chance(2, 3));
    }
    for _ in 0..rng.urange(1, 6) {
        let t: &Vec<char> = rng.pick(texts);
        let n = rng.urange(1, t.len().min(2 * usize::from(m.char_window_size)).min(3));
        let s = rng.below(t.len() - n + 1);
        let g: String = t[s..s + n].iter().collect();
        if !p.char_ngram_model.iter().any(|d| d.ngram == g) {
            p.char_ngram_model.push(vgen::mirror::NgramData { ngram: g, weights: vec![0; 2 * usize::from(m.char_window_size) - n + 1] });
        }
        let n = rng.urange(1, t.len().min(2 * usize::from(m.type_window_size)).min(3));
        let s = rng.below(t.len() - n + 1);
        let g: Vec<u8> = ctypes(&t[s..s + n]);
        if !p.type_ngram_model.iter().any(|d| d.ngram == g) {
            p.type_ngram_model.push(vgen::mirror::NgramData { ngram: g, weights: vec![0; 2 * usize::from(m.type_window_size) - n + 1] });
        }
    }
    p.tag_models.reverse();
    p
}

/// Forces boundaries so that occurrences of modelled tokens become tokens.
fn force_tokens(rng: &mut Rng, m: &ModelData, text: &[char], labels: &mut [u8]) {
    for tm in &m.tag_models {
        let g: Vec<char> = tm.token.chars().collect();
        if g.is_empty() || g.len() > text.len() {
            continue;
        }
        for s in 0..=text.len() - g.len() {
            if text[s..s + g.len()] == g[..] && rng.chance(1, 2) {
                if s > 0 {
                    labels[s - 1] = 1;
                }
                for l in labels[s..s + g.len() - 1].iter_mut() {
                    *l = 0;
                }
                if s + g.len() < text.len() {
                    labels[s + g.len() - 1] = 1;
                }
            }
        }
    }
}

/// Compares tags (and candidate scores) of a sentence with the reference tagger.
pub fn check_tags(
    ctx: &mut Ctx,
    prop: &str,
    case: &Case,
    text: &[char],
    obs: &Obs,
    stored: bool,
    variant: &str,
) -> bool {
    let m = &case.model;
    let types = ctypes(text);
    let n_tags = m.n_tags();
    let fail = |ctx: &mut Ctx, what: &str, extra: J| {
        ctx.violation(
            &format!("{prop}:{what}"),
            J::obj(vec![("what", extra), ("variant", J::s(variant)), ("observed", obs.to_json()), ("case", case_json(case, Some(text)))]),
        );
    };
    if obs.n_tags != n_tags {
        fail(ctx, "n_tags_differs_from_max_category_count", J::obj(vec![("expected", J::i(n_tags)), ("observed", J::i(obs.n_tags))]));
        return false;
    }
    if obs.tags.len() != text.len() * n_tags {
        fail(ctx, "tags_len", J::i(obs.tags.len()));
        return false;
    }
    let spans = ref_partition(text.len(), &obs.labels);
    let mut expect: Vec<Option<String>> = vec![None; text.len() * n_tags];
    let mut expect_cands = vec![];
    for sp in &spans {
        let rt = ref_tags(m, text, &types, sp);
        ctx.count("tokens_checked", 1);
        if rt.has_model {
            ctx.count("tokens_with_tag_model", 1);
            ctx.count("tag_ties", rt.ties);
            for r in &rt.matched_rel {
                ctx.count(&format!("tag_ngram_matched_at_rel_{}", if *r > 4 { "5+".to_string() } else { r.to_string() }), 1);
            }
            for c in &rt.candidates {
                match c.len() {
                    0 => ctx.count("categories_with_0_candidates", 1),
                    1 => ctx.count("categories_with_1_candidate", 1),
                    _ => ctx.count("categories_with_2+_candidates", 1),
                }
            }
        }
        for (j, t) in rt.tags.iter().enumerate() {
            expect[(sp.end - 1) * n_tags + j] = t.clone();
        }
        expect_cands.push(rt.candidates);
    }
    if let Some(i) = first_diff(&obs.tags, &expect) {
        let (ci, cat) = if n_tags == 0 { (0, 0) } else { (i / n_tags, i % n_tags) };
        fail(
            ctx,
            "tag_differs_from_reference_classifier",
            J::obj(vec![
                ("char", J::i(ci)),
                ("category", J::i(cat)),
                ("expected", opt_s(expect.get(i).unwrap_or(&None))),
                ("observed", opt_s(obs.tags.get(i).unwrap_or(&None))),
            ]),
        );
        return false;
    }
    if stored {
        if let Some(c) = obs.cands.as_ref() {
            let got: Vec<Vec<Vec<(String, i64)>>> =
                c.iter().map(|t| t.iter().map(|cat| cat.iter().map(|(n, s)| (n.clone(), i64::from(*s))).collect()).collect()).collect();
            if got != expect_cands {
                let k = got.iter().zip(&expect_cands).position(|(a, b)| a != b).unwrap_or(0);
                fail(
                    ctx,
                    "tag_candidate_scores_differ_from_reference",
                    J::obj(vec![
                        ("token_index", J::i(k)),
                        ("expected", J::s(format!("{:?}", expect_cands.get(k)))),
                        ("observed", J::s(format!("{:?}", got.get(k)))),
                    ]),
                );
                return false;
            }
            ctx.count("tokens_with_candidate_scores_compared", got.len() as u64);
        }
    }
    true
}

/// tag prediction requested, no tag model; type window <= 3 (cached type scorer), plus a character n-gram
fn tagless_tag_predictor() -> Predictor {
    let m = ModelData {
        char_ngram_model: vec![vgen::mirror::NgramData { ngram: "a".into(), weights: vec![2, -3] }],
        type_ngram_model: vec![vgen::mirror::NgramData { ngram: vec![5], weights: vec![1, -1] }, vgen::mirror::NgramData { ngram: vec![3, 3], weights: vec![4] }],
        bias: 0,
        char_window_size: 1,
        type_window_size: 1,
        ..ModelData::default()
    };
    new_predictor(&m, true).expect("tag-less tag predictor")
}

/// Set by the C06 workload itself (the composite C18u workload skips the large tag set).
pub static ALLOW_BIG_TAGSET: std::sync::atomic::AtomicBool = std::sync::atomic::AtomicBool::new(false);

/// A model with more than 65 536 tag models; tag n-grams on tokens with small and large ids.
fn big_tagset(ctx: &mut Ctx) {
    use vgen::mirror::{NgramData, TagModel, TagNgramData, TagWeight};
    let cjk = |i: usize| char::from_u32(0x4E00 + (i % 20000) as u32).unwrap();
    let n = 65_540usize;
    let tok = |i: usize| -> String { [cjk(i / 300), cjk(3000 + i % 300)].iter().collect() };
    let mut m = ModelData { bias: -1, char_window_size: 1, type_window_size: 1, ..ModelData::default() };
    m.char_ngram_model.push(NgramData { ngram: "x".into(), weights: vec![5, 5] });
    let special = [0usize, 3, 4, 65_535, 65_536, 65_539];
    for i in 0..n {
        let mut tm = TagModel { token: tok(i), tags: vec![vec!["P".into(), "Q".into()]], char_ngram_model: vec![], type_ngram_model: vec![], bias: vec![0, 5] };
        if special.contains(&i) {
            tm.char_ngram_model.push(TagNgramData { ngram: tok(i), weights: vec![TagWeight { rel_position: 0, weights: vec![100 + i as i32 % 7, 0] }] });
        }
        m.tag_models.push(tm);
    }
    let case = Case { model: m, texts: special.iter().chain([7usize, 65_537].iter()).map(|&i| format!("x{}x{}x", tok(i), tok(i)).chars().collect()).collect(), weight_class: "big-tagset" };
    let r = guard(|| -> Result<Vec<(Vec<char>, Obs)>, String> {
        let mut p = new_predictor(&case.model, true)?;
        p.store_tag_scores(true);
        let mut out = vec![];
        for t in &case.texts {
            let mut s = Sentence::from_raw(to_string(t)).map_err(|e| e.to_string())?;
            p.predict(&mut s);
            // x | tok | x | tok | x
            for (i, b) in s.boundaries_mut().iter_mut().enumerate() {
                *b = boundary_of(u8::from(i != 1 && i != 4));
            }
            s.fill_tags();
            out.push((t.clone(), observe(&s, true)));
        }
        Ok(out)
    });
    ctx.eval(1);
    match r {
        Ok(Ok(v)) => {
            for (t, obs) in v {
                check_tags(ctx, "C06", &case, &t, &obs, true, "model with more than 65536 tag models");
            }
            ctx.count("models_with_more_than_65536_tag_models", 1);
            ctx.nontrivial(65_540);
        }
        Ok(Err(e)) => ctx.violation("C06:large_tag_set_rejected", J::s(&e)),
        Err(p) => ctx.violation(&format!("C06:large_tag_set_panicked:{}", panic_site(&p)), J::s(&p)),
    }
}

pub fn run_c06(ctx: &mut Ctx, from: u64, to: u64, tiny: bool) {
    for k in from..to {
        ctx.begin_case(k);
        if k == 5 && !tiny && ALLOW_BIG_TAGSET.load(std::sync::atomic::Ordering::Relaxed) {
            big_tagset(ctx);
            continue;
        }
        let mut rng = Rng::new(case_seed(ctx.seed, "C06", k));
        let mut o = opts_for(ctx, k, TagMode::Always, tiny);
        o.max_text_len = o.max_text_len.min(80);
        let mut case = gen_case(&mut rng, &o);
        if k % 16 == 9 {
            // a character scorer exists, but none of its patterns (boundary or tag) occurs anywhere in the texts;
            // the tag tokens themselves still occur (their classifiers then consist of bias and type n-grams)
            case.model.char_ngram_model = vec![vgen::mirror::NgramData { ngram: "\u{2}\u{3}".into(), weights: vec![1; 2 * usize::from(case.model.char_window_size) - 1] }];
            case.model.dict_model.clear();
            for tm in case.model.tag_models.iter_mut() {
                tm.char_ngram_model.clear();
            }
            ctx.count("cases_where_no_character_pattern_occurs_in_any_text", 1);
        }
        let case = case;
        let m = &case.model;
        let n_classes: usize = m.tag_models.iter().map(ModelData::n_classes).max().unwrap_or(0);
        ctx.flag("models_with_more_than_8_classes", n_classes > 8);
        ctx.flag("models_with_empty_char_boundary_model", m.char_ngram_model.is_empty() && m.dict_model.is_empty());
        ctx.flag("models_with_empty_type_boundary_model", m.type_ngram_model.is_empty());
        ctx.flag("models_whose_tag_models_have_no_category", m.n_tags() == 0);
        let tagless = tagless_tag_predictor();
        let Some(mut pred) = (if k % 5 == 4 && !tiny { make_predictor_restored(ctx, "C06", &case, true, (k % 16) as usize) } else { make_predictor(ctx, "C06", &case, true) }) else { continue };
        let stored = rng.chance(2, 3);
        pred.store_tag_scores(stored);
        // a second, different tag predictor whose patterns also occur in these texts
        let warm_pred = if rng.chance(1, 3) { new_predictor(&perturb(m, &case.texts, &mut rng), true).ok() } else { None };
        ctx.flag("cases_with_previous_predictor_on_same_sentence", warm_pred.is_some());
        let mut modelled = 0u64;
        for text in &case.texts {
            let before = ctx.evals;
            let warm = warm_pred.as_ref();
            let Some((mut s, _)) = predict_and_check(ctx, "C06", &case, text, &pred, &mut rng, if warm.is_some() { "tag predictor after another predictor on the same sentence" } else { "tag predictor" }, false, warm) else {
                continue;
            };
            let _ = before;
            let forced = rng.chance(2, 3);
            if forced {
                let mut labels: Vec<u8> =
                    if rng.chance(1, 2) { s.boundaries().iter().map(|&b| label_of(b)).collect() } else { gen_labels(&mut rng, text.len() - 1, 0) };
                // unannotated stretches (a caller or custom filter may leave boundaries unknown before fill_tags)
                if rng.chance(1, 3) {
                    for l in labels.iter_mut() {
                        if rng.chance(1, 6) {
                            *l = 2;
                        }
                    }
                }
                force_tokens(&mut rng, m, text, &mut labels);
                if labels.contains(&2) {
                    ctx.count("fill_tags_runs_with_unknown_boundaries_present", 1);
                }
                for (b, &l) in s.boundaries_mut().iter_mut().zip(&labels) {
                    *b = boundary_of(l);
                }
            }
            let with_cands = stored;
            let r = guard(|| {
                s.fill_tags();
                observe(&s, with_cands)
            });
            match r {
                Ok(obs) => {
                    ctx.eval(1);
                    let before_tok = ctx_counter(ctx, "tokens_with_tag_model");
                    check_tags(ctx, "C06", &case, text, &obs, with_cands, if forced { "forced boundaries" } else { "predicted boundaries" });
                    modelled += ctx_counter(ctx, "tokens_with_tag_model") - before_tok;
                    if rng.chance(1, 4) && text.len() >= 2 {
                        // boundaries edited after the first fill_tags, then fill_tags again: the tags are those of
                        // the tokens as they are now
                        let mut labels: Vec<u8> = gen_labels(&mut rng, text.len() - 1, 0);
                        force_tokens(&mut rng, m, text, &mut labels);
                        let r3 = guard(|| {
                            for (b, &l) in s.boundaries_mut().iter_mut().zip(&labels) {
                                *b = boundary_of(l);
                            }
                            s.fill_tags();
                            observe(&s, with_cands)
                        });
                        ctx.eval(1);
                        ctx.count("sentences_refilled_after_boundary_edit", 1);
                        match r3 {
                            Ok(o3) => {
                                check_tags(ctx, "C06", &case, text, &o3, with_cands, "fill_tags again after a boundary edit");
                            }
                            Err(p) => ctx.violation(
                                &format!("C06:fill_tags_panicked:{}", panic_site(&p)),
                                J::obj(vec![("panic", J::s(&p)), ("variant", J::s("fill_tags again after a boundary edit")), ("case", case_json(&case, Some(text)))]),
                            ),
                        }
                    }
                    if rng.chance(1, 4) {
                        // the same object is then analysed by a tag-predicting predictor whose model has no tag
                        // model at all: the tags of that analysis are "none", whatever ran before
                        let r2 = guard(|| {
                            tagless.predict(&mut s);
                            s.fill_tags();
                            observe(&s, false)
                        });
                        ctx.eval(1);
                        ctx.count("sentences_reanalysed_by_tagless_tag_predictor", 1);
                        match r2 {
                            Ok(o2) => {
                                if o2.n_tags != 0 || !o2.tags.is_empty() {
                                    ctx.violation("C06:tags_reported_by_predictor_without_tag_models", J::obj(vec![("observed", o2.to_json()), ("case", case_json(&case, Some(text)))]));
                                }
                            }
                            Err(p) => ctx.violation(
                                &format!("C06:fill_tags_after_second_predictor_panicked:{}", panic_site(&p)),
                                J::obj(vec![("panic", J::s(&p)), ("case", case_json(&case, Some(text)))]),
                            ),
                        }
                    }
                }
                Err(p) => ctx.violation(
                    &format!("C06:fill_tags_panicked:{}", panic_site(&p)),
                    J::obj(vec![("panic", J::s(&p)), ("case", case_json(&case, Some(text)))]),
                ),
            }
        }
        if modelled > 0 {
            ctx.nontrivial(case_digest(&case));
        }
        if ctx.want_sample() {
            ctx.sample(J::obj(vec![
                ("model", J::s(m.summary())),
                ("tag_tokens", J::A(m.tag_models.iter().map(|t| J::s(&t.token)).collect())),
                ("categories", J::A(m.tag_models.iter().map(|t| J::A(t.tags.iter().map(|c| J::strs(c)).collect())).collect())),
                ("text", J::s(clip(&to_string(&case.texts[0]), 60))),
                ("tokens_with_tag_model_in_case", J::i(modelled)),
            ]));
        }
    }
}

pub fn ctx_counter(ctx: &Ctx, name: &str) -> u64 {
    ctx.counter(name)
}

/// C14: serialise / deserialise a predictor and compare the behaviour of both.
/// Set by the C14 workload itself (the composite C18u workload skips the large predictor).
pub static ALLOW_BIG_PREDICTOR: std::sync::atomic::AtomicBool = std::sync::atomic::AtomicBool::new(false);

/// A predictor whose serialised form is far larger than 16 MiB (the size of real distributed models).
fn big_predictor_round_trip(ctx: &mut Ctx) {
    use vgen::mirror::{NgramData, WordWeightRecord};
    let mut big = ModelData { bias: 3, char_window_size: 2, type_window_size: 2, ..ModelData::default() };
    let cjk = |i: usize| char::from_u32(0x4E00 + (i % 20000) as u32).unwrap();
    for i in 0..270_000usize {
        let w: String = [cjk(i / 700), cjk(7000 + i % 700), cjk(9000 + (i * 7) % 911)].iter().collect();
        big.dict_model.push(WordWeightRecord { word: w, weights: vec![1, -2, 3, (i % 5) as i32], comment: String::new() });
    }
    for i in 0..380_000usize {
        let g: String = [cjk(i / 650), cjk(12000 + i % 650)].iter().collect();
        big.char_ngram_model.push(NgramData { ngram: g, weights: vec![(i % 7) as i32 - 3, 2, -1] });
    }
    big.type_ngram_model.push(NgramData { ngram: vec![5, 5], weights: vec![4, -6, 1] });
    let text: Vec<char> = (0..400usize).map(|i| if i % 3 == 0 { cjk(i / 3) } else if i % 3 == 1 { cjk(7000 + i % 700) } else { cjk(12000 + (i * 5) % 650) }).collect();
    let r = guard(|| -> Result<(usize, bool), String> {
        let p = new_predictor(&big, false)?;
        let mut bytes = p.serialize_to_vec().map_err(|e| format!("serialize_to_vec: {e}"))?;
        let n = bytes.len();
        bytes.extend_from_slice(b"tail");
        // SAFETY: the bytes were produced by serialize_to_vec.
        let (q, rest) = unsafe { Predictor::deserialize_from_slice_unchecked(&bytes) }.map_err(|e| format!("deserialize_from_slice_unchecked: {e}"))?;
        if rest != b"tail" {
            return Err(format!("remaining slice has {} bytes, 4 were appended", rest.len()));
        }
        let mut a = Sentence::from_raw(to_string(&text)).unwrap();
        let mut b = Sentence::from_raw(to_string(&text)).unwrap();
        p.predict(&mut a);
        q.predict(&mut b);
        let refs = ref_scores(&big, &text);
        let same = a.boundary_scores() == b.boundary_scores() && a.boundaries() == b.boundaries();
        let right = a.boundary_scores().iter().map(|&x| i64::from(x)).collect::<Vec<_>>() == refs;
        if !same || !right {
            return Err(format!("scores differ: original_equals_reference={right} deserialised_equals_original={same}"));
        }
        Ok((n, refs.iter().any(|&x| x != 3)))
    });
    ctx.eval(1);
    match r {
        Ok(Ok((n, nontrivial))) => {
            if n > (1 << 24) {
                ctx.count("predictors_serialised_larger_than_16MiB", 1);
            }
            ctx.count("large_predictor_serialised_bytes", n as u64);
            if nontrivial {
                ctx.nontrivial(n as u64);
            }
        }
        Ok(Err(e)) => ctx.violation("C14:large_predictor_does_not_round_trip", J::obj(vec![("what", J::s(&e)), ("model", J::s(big.summary()))])),
        Err(p) => ctx.violation(&format!("C14:large_predictor_round_trip_panicked:{}", panic_site(&p)), J::obj(vec![("panic", J::s(&p)), ("model", J::s(big.summary()))])),
    }
}

pub fn run_c14(ctx: &mut Ctx, from: u64, to: u64, tiny: bool) {
    for k in from..to {
        ctx.begin_case(k);
        let mut rng = Rng::new(case_seed(ctx.seed, "C14", k));
        if k == 3 && !tiny && ALLOW_BIG_PREDICTOR.load(std::sync::atomic::Ordering::Relaxed) {
            big_predictor_round_trip(ctx);
            continue;
        }
        let mut o = opts_for(ctx, k, TagMode::Maybe, tiny);
        o.max_text_len = o.max_text_len.min(200);
        if k % 40 == 13 && !tiny {
            o.tags = TagMode::Always;
        }
        let mut case = gen_case(&mut rng, &o);
        if k % 40 == 13 && !tiny {
            // the number of distinct character patterns (n-grams, words, tag n-grams) is padded to a multiple of 64
            let mut pats: std::collections::BTreeSet<String> = case.model.char_ngram_model.iter().map(|d| d.ngram.clone()).collect();
            pats.extend(case.model.dict_model.iter().map(|d| d.word.clone()));
            for tm in &case.model.tag_models {
                pats.extend(tm.char_ngram_model.iter().map(|d| d.ngram.clone()));
            }
            let target = (pats.len() / 64 + 1) * 64;
            let mut i = 0u32;
            while pats.len() < target {
                let g: String = [char::from_u32(0xE000 + i % 500).unwrap(), char::from_u32(0xE300 + i / 500).unwrap()].iter().collect();
                i += 1;
                if pats.insert(g.clone()) {
                    let wl = 2 * usize::from(case.model.char_window_size) - 1;
                    case.model.char_ngram_model.push(vgen::mirror::NgramData { ngram: g, weights: vec![1; wl] });
                }
            }
            ctx.count("models_whose_pattern_count_is_a_multiple_of_64", 1);
        }
        let case = case;
        let m = &case.model;
        count_model_facts(ctx, m);
        // tag prediction is also requested for models without any tag model (a legal, if unusual, use)
        let tags = if m.tag_models.is_empty() { rng.chance(1, 3) } else { rng.chance(3, 4) };
        ctx.flag("predictors_with_tag_prediction_on_tagless_model", tags && m.tag_models.is_empty());
        ctx.flag("predictors_with_tag_prediction", tags);
        let Some(mut p) = make_predictor(ctx, "C14", &case, tags) else { continue };
        let mut trailing: Vec<u8> = (0..rng.below(40)).map(|_| rng.below(256) as u8).collect();
        if rng.chance(1, 6) {
            // bytes that look like small structured data (version fields, flags, option tags)
            let head: &[u8] = *rng.pick(&[&[1u8, 0][..], &[1, 1], &[0, 0, 0, 0], &[1], &[2, 0, 1, 0], &[0xff, 0xff]]);
            trailing.splice(0..0, head.iter().copied());
            ctx.count("trailing_bytes_resembling_structured_data", 1);
        }
        let ser = guard(|| p.serialize_to_vec());
        let mut bytes = match ser {
            Ok(Ok(b)) => b,
            Ok(Err(e)) => {
                ctx.violation("C14:serialize_failed", J::obj(vec![("error", J::s(format!("{e}"))), ("case", case_json(&case, None))]));
                continue;
            }
            Err(pn) => {
                ctx.violation(&format!("C14:serialize_panicked:{}", panic_site(&pn)), J::obj(vec![("panic", J::s(&pn)), ("case", case_json(&case, None))]));
                continue;
            }
        };
        let ser_len = bytes.len();
        bytes.extend_from_slice(&trailing);
        // the serialised form may sit anywhere in a larger buffer (embedded data, memory-mapped files)
        let shift = (k % 16) as usize;
        let mut shifted = vec![0x5Au8; shift];
        shifted.extend_from_slice(&bytes);
        let bytes = shifted;
        let bytes = &bytes[shift..];
        ctx.flag("predictors_deserialised_from_odd_buffer_offset", shift % 2 == 1);
        // SAFETY: the bytes were produced by serialize_to_vec (the documented contract).
        let de = guard(|| unsafe { Predictor::deserialize_from_slice_unchecked(bytes) });
        let (mut q, rest) = match de {
            Ok(Ok(x)) => x,
            Ok(Err(e)) => {
                ctx.violation("C14:deserialize_failed", J::obj(vec![("error", J::s(format!("{e}"))), ("case", case_json(&case, None))]));
                continue;
            }
            Err(pn) => {
                ctx.violation(&format!("C14:deserialize_panicked:{}", panic_site(&pn)), J::obj(vec![("panic", J::s(&pn)), ("case", case_json(&case, None))]));
                continue;
            }
        };
        ctx.eval(1);
        if rest != &trailing[..] {
            ctx.violation(
                "C14:remaining_slice_differs",
                J::obj(vec![("serialized_len", J::i(ser_len)), ("trailing_len", J::i(trailing.len())), ("rest_len", J::i(rest.len())), ("case", case_json(&case, None))]),
            );
        }
        ctx.flag("cases_with_trailing_bytes", !trailing.is_empty());
        let stored = tags && rng.chance(1, 2);
        if tags {
            p.store_tag_scores(stored);
            q.store_tag_scores(stored);
        }
        let mut occ = 0;
        for text in &case.texts {
            let Some((mut s1, refs)) = predict_and_check(ctx, "C14", &case, text, &p, &mut rng, "original", false, None) else { continue };
            let Some((mut s2, _)) = predict_and_check(ctx, "C14", &case, text, &q, &mut rng, "deserialised", false, None) else { continue };
            occ += count_score_facts(ctx, m, text, &refs);
            let r = guard(|| {
                if tags {
                    s1.fill_tags();
                    s2.fill_tags();
                }
                (observe(&s1, stored), observe(&s2, stored))
            });
            match r {
                Ok((o1, o2)) => {
                    ctx.eval(1);
                    if o1 != o2 {
                        ctx.violation(
                            "C14:deserialised_predictor_behaves_differently",
                            J::obj(vec![("original", o1.to_json()), ("deserialised", o2.to_json()), ("cands_equal", J::B(o1.cands == o2.cands)), ("case", case_json(&case, Some(text)))]),
                        );
                    } else if tags {
                        check_tags(ctx, "C14", &case, text, &o2, stored, "deserialised");
                    }
                }
                Err(pn) => ctx.violation(
                    &format!("C14:observe_panicked:{}", panic_site(&pn)),
                    J::obj(vec![("panic", J::s(&pn)), ("case", case_json(&case, Some(text)))]),
                ),
            }
        }
        if occ > 0 {
            ctx.nontrivial(case_digest(&case));
        }
        if ctx.want_sample() {
            ctx.sample(J::obj(vec![
                ("model", J::s(m.summary())),
                ("predict_tags", J::B(tags)),
                ("serialized_bytes", J::i(ser_len)),
                ("trailing_bytes", J::i(trailing.len())),
                ("texts", J::A(case.texts.iter().take(3).map(|t| J::s(clip(&to_string(t), 40))).collect())),
            ]));
        }
    }
}
