//! C17: KyTea model conversion preserves the word-segmentation model; truncated files are rejected.

use std::io::Cursor;

use vaporetto::{KyteaModel, Model, Predictor, Sentence};
use vgen::json::{clip, J};
use vgen::kytea::{gen_spec, normalised};
use vgen::mirror::ModelData;
use vgen::oracle::ref_scores;
use vgen::rng::{case_seed, fnv, Rng};
use vgen::text::to_string;

use crate::ctx::{guard, panic_site, Ctx};

fn convert(bytes: &[u8]) -> Result<(Model, usize), String> {
    let mut cur = Cursor::new(bytes);
    let km = KyteaModel::read(&mut cur).map_err(|e| format!("read: {e}"))?;
    let used = cur.position() as usize;
    let m = Model::try_from(km).map_err(|e| format!("convert: {e}"))?;
    Ok((m, used))
}

fn prefixes(ctx: &mut Ctx, bytes: &[u8], consumed: usize, what: &str) -> bool {
    // complete enumeration for files up to 20 kB; beyond that the head, the tail and an even sample
    let ks: Vec<usize> = if consumed <= 20_000 {
        (0..consumed).collect()
    } else {
        let mut v: Vec<usize> = (0..256).collect();
        v.extend((0..300).map(|i| 256 + i * (consumed - 512) / 300));
        v.extend(consumed - 256..consumed);
        v
    };
    for k in ks {
        let r = guard(|| convert(&bytes[..k]).is_ok());
        ctx.eval(1);
        match r {
            Ok(false) => {}
            Ok(true) => {
                ctx.violation("C17:truncated_file_accepted", J::obj(vec![("file", J::s(what)), ("prefix_len", J::i(k)), ("consumed_len", J::i(consumed)), ("file_hex", J::hex(&bytes[..bytes.len().min(4096)]))]));
                return false;
            }
            Err(p) => {
                ctx.violation(&format!("C17:truncated_file_caused_panic:{}", panic_site(&p)), J::obj(vec![("file", J::s(what)), ("prefix_len", J::i(k)), ("panic", J::s(&p)), ("file_hex", J::hex(&bytes[..bytes.len().min(4096)]))]));
                return false;
            }
        }
    }
    ctx.count("prefixes_tried", consumed as u64);
    true
}

pub fn run_c17(ctx: &mut Ctx, from: u64, to: u64) {
    for k in from..to {
        ctx.begin_case(k);
        if k == 0 {
            if let Ok(bytes) = std::fs::read("/repo/resources/kytea-model.bin") {
                match guard(|| convert(&bytes)) {
                    Ok(Ok((m, used))) => {
                        ctx.count("shipped_kytea_model_checked", 1);
                        ctx.note("shipped_file", J::obj(vec![("bytes", J::i(bytes.len())), ("consumed_by_reader", J::i(used))]));
                        // sample prediction documented in the crate
                        let r = guard(|| {
                            let p = Predictor::new(m, false).map_err(|e| format!("{e}"))?;
                            let mut s = Sentence::from_raw("まぁ社長は火星猫だ").unwrap();
                            p.predict(&mut s);
                            let mut buf = String::new();
                            s.write_tokenized_text(&mut buf);
                            Ok::<_, String>(buf)
                        });
                        if r != Ok(Ok("まぁ 社長 は 火星 猫 だ".to_string())) {
                            ctx.violation("C17:shipped_model_documented_example_differs", J::s(format!("{:?}", r)));
                        }
                        prefixes(ctx, &bytes, used, "resources/kytea-model.bin");
                        ctx.nontrivial(fnv(&bytes));
                    }
                    other => ctx.violation("C17:shipped_kytea_model_rejected", J::s(format!("{:?}", other.map(|r| r.map(|x| x.1))))),
                }
            }
            continue;
        }
        let mut rng = Rng::new(case_seed(ctx.seed, "C17", k));
        let (spec, texts) = gen_spec(&mut rng);
        let bytes = spec.emit();
        let consumed = bytes.len() - spec.trailing.len();
        let want = spec.expected();
        let detail = |extra: Vec<(&str, J)>| {
            let mut kv = vec![
                ("spec", J::s(clip(&format!("{:?}", spec), 1500))),
                ("file_hex", J::hex(&bytes[..bytes.len().min(4096)])),
            ];
            kv.extend(extra);
            J::obj(kv)
        };
        ctx.flag("files_without_char_or_type_ngram_section(only_no_panic_asserted)", (spec.char_ngrams.is_empty() || spec.type_ngrams.is_empty()) && !spec.empty_tries_present);
        ctx.flag("files_with_present_but_empty_ngram_trie", (spec.char_ngrams.is_empty() || spec.type_ngrams.is_empty()) && spec.empty_tries_present);
        ctx.flag("files_with_char_ids_above_32767", spec.char_map.len() > 32767);
        ctx.flag("files_with_word_of_255_or_more_chars", spec.words.iter().any(|w| w.0.len() >= 255));
        ctx.flag("files_with_type_byte_0x04", spec.type_ngrams.iter().any(|g| g.0.contains(&'\u{4}')));
        ctx.flag("files_with_several_dictionaries", spec.n_dicts >= 2);
        ctx.flag("files_with_tag_slots", spec.n_tags > 0);
        ctx.flag("files_with_word_longer_than_bucket", spec.words.iter().any(|w| w.0.len() > usize::from(spec.dict_n)));
        ctx.flag("files_with_windows_that_differ", spec.char_w != spec.type_w);
        ctx.flag("files_with_window_of_8_or_more", spec.char_w >= 8 || spec.type_w >= 8);
        ctx.flag("files_with_dictionary_weights_summing_beyond_16_bit", spec.dict_vec.iter().any(|&x| x.unsigned_abs() >= 15000) && spec.n_dicts >= 2);
        ctx.flag("files_with_extra_stored_weights", spec.extra_weights > 0);
        ctx.flag("files_with_trailing_bytes", !spec.trailing.is_empty());
        ctx.count("char_ngrams_in_files", spec.char_ngrams.len() as u64);
        ctx.count("type_ngrams_in_files", spec.type_ngrams.len() as u64);
        ctx.count("dictionary_words_in_files", spec.words.len() as u64);
        let r = guard(|| -> Result<(), (String, J)> {
            let conv = convert(&bytes);
            if (spec.char_ngrams.is_empty() || spec.type_ngrams.is_empty()) && !spec.empty_tries_present {
                // a file without character or type n-gram section is reported as "no ... dictionary" by design;
                // only "no panic" (and, if accepted, equality) is asserted for such files
                if conv.is_err() {
                    return Ok(());
                }
            }
            let (m, used) = conv.map_err(|e| ("C17:valid_kytea_file_rejected".to_string(), J::s(&e)))?;
            if used != consumed {
                return Err(("C17:reader_consumed_unexpected_number_of_bytes".into(), J::obj(vec![("consumed", J::i(used)), ("expected", J::i(consumed))])));
            }
            let ser = m.to_vec().map_err(|e| ("C17:converted_model_cannot_be_serialised".to_string(), J::s(format!("{e}"))))?;
            // a source that hands out 1..3 bytes per read call (pipes, decompressors) must give the same model
            {
                struct Dribble<'a>(&'a [u8], usize, usize);
                impl std::io::Read for Dribble<'_> {
                    fn read(&mut self, buf: &mut [u8]) -> std::io::Result<usize> {
                        self.2 += 1;
                        if self.2 % 7 == 3 {
                            return Err(std::io::Error::new(std::io::ErrorKind::Interrupted, "interrupted"));
                        }
                        let n = buf.len().min(1 + self.2 % 3).min(self.0.len() - self.1);
                        buf[..n].copy_from_slice(&self.0[self.1..self.1 + n]);
                        self.1 += n;
                        Ok(n)
                    }
                }
                let mut rd = std::io::BufReader::with_capacity(2, Dribble(&bytes, 0, 0));
                let km = KyteaModel::read(&mut rd).map_err(|e| ("C17:valid_kytea_file_rejected_when_read_in_small_pieces".to_string(), J::s(format!("{e}"))))?;
                let m2 = Model::try_from(km).map_err(|e| ("C17:valid_kytea_file_rejected_when_read_in_small_pieces".to_string(), J::s(format!("{e}"))))?;
                if m2.to_vec().ok().as_deref() != Some(&ser[..]) {
                    return Err(("C17:short_reads_change_the_converted_model".into(), J::Null));
                }
                struct Short(Vec<u8>, usize);
                impl std::io::Write for Short {
                    fn write(&mut self, buf: &[u8]) -> std::io::Result<usize> {
                        let n = buf.len().min(self.1);
                        self.0.extend_from_slice(&buf[..n]);
                        Ok(n)
                    }
                    fn flush(&mut self) -> std::io::Result<()> {
                        Ok(())
                    }
                }
                let mut sw = Short(vec![], 1 + ser.len() % 97);
                m2.write(&mut sw).map_err(|e| ("C17:converted_model_cannot_be_written".to_string(), J::s(format!("{e}"))))?;
                if sw.0 != ser {
                    return Err(("C17:converted_model_written_through_short_writer_is_incomplete".into(), J::obj(vec![("written", J::i(sw.0.len())), ("expected", J::i(ser.len()))])));
                }
            }
            let (got, _) = ModelData::from_bytes(&ser).map_err(|e| ("C17:converted_model_unreadable_by_mirror".to_string(), J::s(&e)))?;
            let got = normalised(&got);
            if got != want {
                let what = if got.char_ngram_model != want.char_ngram_model {
                    format!("char n-grams: {:?} vs expected {:?}", got.char_ngram_model, want.char_ngram_model)
                } else if got.type_ngram_model != want.type_ngram_model {
                    format!("type n-grams: {:?} vs expected {:?}", got.type_ngram_model, want.type_ngram_model)
                } else if got.dict_model != want.dict_model {
                    format!("dictionary: {:?} vs expected {:?}", got.dict_model, want.dict_model)
                } else {
                    format!("bias/windows/tags: {} vs expected {}", got.summary(), want.summary())
                };
                return Err(("C17:converted_model_differs_from_file_contents".into(), J::s(clip(&what, 1500))));
            }
            let p = Predictor::new(m, false).map_err(|e| ("C17:converted_model_rejected_by_predictor".to_string(), J::s(format!("{e}"))))?;
            for t in &texts {
                let refs = ref_scores(&want, t);
                let mut s = Sentence::from_raw(to_string(t)).unwrap();
                p.predict(&mut s);
                let sc: Vec<i64> = s.boundary_scores().iter().map(|&x| i64::from(x)).collect();
                if sc != refs {
                    return Err(("C17:converted_model_segments_differently".into(), J::obj(vec![("text", J::s(clip(&to_string(t), 80))), ("expected", J::ints(&refs)), ("observed", J::ints(&sc))])));
                }
            }
            Ok(())
        });
        ctx.eval(1);
        match r {
            Ok(Ok(())) => {
                if k % 4 == 1 || bytes.len() < 600 {
                    prefixes(ctx, &bytes, consumed, "generated");
                    ctx.count("files_with_every_prefix_enumerated", 1);
                }
                if !spec.char_ngrams.is_empty() || !spec.type_ngrams.is_empty() || !spec.words.is_empty() {
                    ctx.nontrivial(fnv(&bytes));
                }
            }
            Ok(Err((sig, what))) => ctx.violation(&sig, detail(vec![("what", what)])),
            Err(p) => ctx.violation(&format!("C17:conversion_panicked:{}", panic_site(&p)), detail(vec![("panic", J::s(&p))])),
        }
        if ctx.want_sample() {
            ctx.sample(J::obj(vec![
                ("file_bytes", J::i(bytes.len())),
                ("windows", J::s(format!("char {} type {} dict_n {} n_dicts {} n_tags {}", spec.char_w, spec.type_w, spec.dict_n, spec.n_dicts, spec.n_tags))),
                ("char_ngrams", J::A(spec.char_ngrams.iter().map(|g| J::s(g.0.iter().collect::<String>())).collect())),
                ("type_ngrams", J::A(spec.type_ngrams.iter().map(|g| J::s(g.0.iter().collect::<String>())).collect())),
                ("words", J::A(spec.words.iter().map(|g| J::s(format!("{} mask={:#b}", g.0.iter().collect::<String>(), g.1))).collect())),
            ]));
        }
    }
}
