//! C09 (trained model = learned function), C10 (training examples), C11 (training is total),
//! C12 (tag models reflect the tags seen). Uses the `verif-hooks` feature of vaporetto.

use std::collections::{BTreeMap, BTreeSet};

use vaporetto::verif::{self, Feature};
use vaporetto::{Model, Predictor, Sentence, SolverType, Trainer};
use vgen::feat::{sentence_features, tag_features, RFeature, TrainConfig};
use vgen::fmt::RefSentence;
use vgen::json::{clip, J};
use vgen::mirror::ModelData;
use vgen::oracle::ref_partition;
use vgen::rng::{case_seed, fnv, Rng};
use vgen::text::{self, ctypes, to_string};

use crate::ctx::{guard, panic_site, Ctx};
use crate::sut::*;

const SOLVERS: [SolverType; 8] = [
    SolverType::L2RegularizedLogistic,
    SolverType::L2RegularizedL2LossSVCDual,
    SolverType::L2RegularizedL2LossSVC,
    SolverType::L2RegularizedL1LossSVCDual,
    SolverType::CrammerSingerSVC,
    SolverType::L1RegularizedL2LossSVC,
    SolverType::L1RegularizedLogistic,
    SolverType::L2RegularizedLogisticDual,
];

#[derive(Clone, Debug)]
pub struct TrainCase {
    /// liblinear cost parameter C (1.0 unless a case needs exact arithmetic)
    pub cost: f64,
    pub cfg: TrainConfig,
    pub solver: usize,
    pub corpus: Vec<RefSentence>,
    pub tag_dict: Vec<RefSentence>,
    pub eval: Vec<Vec<char>>,
    pub class: &'static str,
}

fn to_r(f: &Feature) -> RFeature {
    match f {
        Feature::CharNgram { ngram, rel } => RFeature::Char { ngram: ngram.clone(), rel: *rel as i64 },
        Feature::TypeNgram { ngram, rel } => RFeature::Type { ngram: ngram.clone(), rel: *rel as i64 },
        Feature::Dict { length, side } => RFeature::Dict { length: *length, side: *side },
    }
}

const TAGS0: &[&str] = &["N", "V", "P", "Adj", "Adv"];
const TAGS1: &[&str] = &["x", "y-z", "w w", " u", "v/w "];
const TAGS2: &[&str] = &["k1", "k2", "\u{3000}k3", "k4\u{3000}", "\u{3000}"];

#[derive(Clone, Copy, PartialEq, Eq, Debug)]
pub enum CorpusClass {
    Normal,
    Empty,
    SingleSentence,
    SingleChar,
    NoWordBoundary,
    OnlyWordBoundaries,
    Untagged,
    PartiallyTagged,
    AmbiguousTags,
    PartialAnnotation,
    AllUnknown,
}

const CLASSES: [CorpusClass; 11] = [
    CorpusClass::Normal,
    CorpusClass::Empty,
    CorpusClass::SingleSentence,
    CorpusClass::SingleChar,
    CorpusClass::NoWordBoundary,
    CorpusClass::OnlyWordBoundaries,
    CorpusClass::Untagged,
    CorpusClass::PartiallyTagged,
    CorpusClass::AmbiguousTags,
    CorpusClass::PartialAnnotation,
    CorpusClass::AllUnknown,
];

fn class_name(c: CorpusClass) -> &'static str {
    match c {
        CorpusClass::Normal => "normal",
        CorpusClass::Empty => "empty",
        CorpusClass::SingleSentence => "single_sentence",
        CorpusClass::SingleChar => "single_character",
        CorpusClass::NoWordBoundary => "no_word_boundary",
        CorpusClass::OnlyWordBoundaries => "only_word_boundaries",
        CorpusClass::Untagged => "untagged",
        CorpusClass::PartiallyTagged => "partially_tagged",
        CorpusClass::AmbiguousTags => "ambiguous_tags",
        CorpusClass::PartialAnnotation => "partial_annotation",
        CorpusClass::AllUnknown => "all_unknown",
    }
}

/// Corpus generator: few characters so that n-grams, words and tokens repeat across sentences.
pub fn gen_train_case(rng: &mut Rng, lo: u8, hi: u8, class: CorpusClass, with_tags: bool) -> TrainCase {
    let asize = rng.urange(2, 5);
    let alpha = text::alphabet(rng, asize, text::Flavor::Any);
    let n_sent = match class {
        CorpusClass::Empty => 0,
        CorpusClass::SingleSentence | CorpusClass::SingleChar => 1,
        _ => rng.urange(2, 12),
    };
    let cat_pools: [&[&str]; 3] = [TAGS0, TAGS1, TAGS2];
    // per-token preferred tags make "single tag" tokens likely, noise makes ambiguous ones
    let mut pref: BTreeMap<String, [usize; 3]> = BTreeMap::new();
    let mut corpus = vec![];
    let n_tags = if with_tags && class != CorpusClass::Untagged { rng.urange(1, 3) } else { 0 };
    for _ in 0..n_sent {
        let n = if class == CorpusClass::SingleChar { 1 } else { rng.urange(1, 10) };
        let chars = text::text_from(rng, &alpha, n);
        let labels: Vec<u8> = (0..n - 1)
            .map(|_| match class {
                CorpusClass::NoWordBoundary => 0,
                CorpusClass::OnlyWordBoundaries => 1,
                CorpusClass::AllUnknown => 2,
                CorpusClass::PartialAnnotation => rng.weighted(&[3, 3, 3]) as u8,
                _ => {
                    if rng.chance(1, 12) {
                        2
                    } else {
                        rng.weighted(&[5, 4]) as u8
                    }
                }
            })
            .collect();
        let mut tags: Vec<Vec<Option<String>>> = vec![vec![]; n];
        if n_tags > 0 {
            for sp in ref_partition(n, &labels) {
                let surf: String = chars[sp.start..sp.end].iter().collect();
                let p = *pref.entry(surf).or_insert([rng.below(5), rng.below(5), rng.below(5)]);
                let mut ts = vec![];
                for (j, pool) in cat_pools.iter().enumerate().take(n_tags) {
                    let absent = match class {
                        CorpusClass::PartiallyTagged => rng.chance(1, 2),
                        _ => rng.chance(1, 8),
                    };
                    if absent {
                        ts.push(None);
                    } else {
                        let noise = match class {
                            CorpusClass::AmbiguousTags => rng.chance(1, 2),
                            _ => rng.chance(1, 5),
                        };
                        let k = if noise { rng.below(5) } else { p[j] };
                        ts.push(Some(pool[k].to_string()));
                    }
                }
                tags[sp.end - 1] = ts;
            }
        }
        corpus.push(RefSentence { chars, labels, tags });
    }
    // rare: the same line twice in a row with the same number of annotated boundaries at other positions
    if !corpus.is_empty() && rng.chance(1, 12) {
        let i = rng.below(corpus.len());
        let mut twin = corpus[i].clone();
        let n = twin.labels.len();
        if n >= 2 {
            twin.labels.rotate_left(1 + rng.below(n - 1));
            for t in twin.tags.iter_mut() {
                t.clear();
            }
            corpus.insert(i + 1, twin);
        }
    }
    // dictionary: unique substrings of the corpus (or of the alphabet when the corpus is empty)
    let mut dict: Vec<String> = vec![];
    if rng.chance(2, 3) {
        for _ in 0..rng.below(6) {
            let w: String = if corpus.is_empty() || rng.chance(1, 6) {
                let l = rng.urange(1, 3);
                (0..l).map(|_| *rng.pick(&alpha)).collect()
            } else {
                let s = rng.pick(&corpus);
                let l = rng.urange(1, s.chars.len().min(6));
                let st = rng.below(s.chars.len() - l + 1);
                s.chars[st..st + l].iter().collect()
            };
            if !dict.contains(&w) {
                dict.push(w);
            }
        }
    }
    // rare: a dictionary word whose length crosses a multiple of 256, occurring in one long sentence
    if !corpus.is_empty() && rng.chance(1, 40) {
        let len = *rng.pick(&[255usize, 256, 257, 258, 259, 260, 512, 513]);
        let word = text::text_from(rng, &alpha, len);
        let mut chars = text::text_from(rng, &alpha, 3);
        let start = chars.len();
        chars.extend(&word);
        chars.extend(text::text_from(rng, &alpha, 3));
        let n = chars.len();
        let mut labels = vec![0u8; n - 1];
        labels[start - 1] = 1;
        labels[start + len - 1] = 1;
        corpus.push(RefSentence { chars, labels, tags: vec![vec![]; n] });
        let w: String = word.iter().collect();
        if !dict.contains(&w) {
            dict.push(w);
        }
    }
    // tag dictionary: one entry per token, some tokens not in the corpus
    let mut tag_dict = vec![];
    if n_tags > 0 && rng.chance(1, 2) {
        let mut seen: BTreeSet<String> = BTreeSet::new();
        for _ in 0..rng.urange(1, 3) {
            let l = rng.urange(1, 3);
            let w: Vec<char> = (0..l).map(|_| *rng.pick(&alpha)).collect();
            let ws: String = w.iter().collect();
            if !seen.insert(ws) {
                continue;
            }
            let n = w.len();
            let mut tags = vec![vec![]; n];
            tags[n - 1] = (0..n_tags).map(|j| if rng.chance(4, 5) { Some(cat_pools[j][rng.below(5)].to_string()) } else { None }).collect();
            tag_dict.push(RefSentence { chars: w, labels: vec![0; n - 1], tags });
        }
    }
    // evaluation sentences: training sentences + fresh ones
    let mut eval: Vec<Vec<char>> = corpus.iter().take(4).map(|s| s.chars.clone()).collect();
    for _ in 0..3 {
        let n = rng.urange(1, 12);
        eval.push(text::text_from(rng, &alpha, n));
    }
    let w = |rng: &mut Rng| rng.urange(usize::from(lo), usize::from(hi)) as u8;
    let cfg = TrainConfig { char_w: w(rng), char_n: w(rng), type_w: w(rng), type_n: w(rng), dict, bucket: rng.urange(1, 5) as u8 };
    TrainCase { cost: 1.0, cfg, solver: rng.below(8), corpus, tag_dict, eval, class: class_name(class) }
}

fn case_json(tc: &TrainCase) -> J {
    J::obj(vec![
        ("config", J::s(format!("charw={} charn={} typew={} typen={} dictn={} solver={}", tc.cfg.char_w, tc.cfg.char_n, tc.cfg.type_w, tc.cfg.type_n, tc.cfg.bucket, tc.solver))),
        ("dict", J::A(tc.cfg.dict.iter().take(12).map(|w| J::s(clip(w, 40))).collect())),
        ("dict_words", J::i(tc.cfg.dict.len())),
        ("corpus_class", J::s(tc.class)),
        ("corpus", J::A(tc.corpus.iter().take(8).map(ref_json).collect())),
        ("tag_dict", J::A(tc.tag_dict.iter().map(ref_json).collect())),
    ])
}

fn digest(tc: &TrainCase) -> u64 {
    fnv(format!("{:?}", tc).as_bytes())
}

pub struct Trained {
    pub model: Model,
    pub blog: Option<verif::BoundaryTrainLog>,
    pub tlogs: Vec<verif::TagTrainLog>,
    pub examples: Vec<verif::Example>,
}

/// Builds the sentences, the trainer, adds every example and trains. Not guarded.
/// Corpus sentences reach the trainer the way the `train` tool feeds them (parsed from corpus lines
/// written by the reference writers) or built through the accessor API, alternating by position.
pub fn corpus_sentence(rs: &RefSentence, i: usize) -> Sentence<'static, 'static> {
    let route = (i + rs.chars.len()) % 3;
    if route == 0 && !rs.labels.contains(&2) {
        if let Ok(s) = Sentence::from_tokenized(&vgen::fmt::write_tokenized(rs)) {
            return s;
        }
    } else if route == 1 {
        if let Ok(s) = Sentence::from_partial_annotation(&crate::p_sentence::write_partial_ref(rs)) {
            return s;
        }
    }
    build_sentence(rs)
}

pub fn train_case(tc: &TrainCase) -> Result<Trained, String> {
    let sents: Vec<Sentence<'static, 'static>> = tc.corpus.iter().enumerate().map(|(i, rs)| corpus_sentence(rs, i)).collect();
    let tdict: Vec<Sentence<'static, 'static>> = tc.tag_dict.iter().enumerate().map(|(i, rs)| corpus_sentence(rs, i + 1)).collect();
    let mut trainer = Trainer::new(tc.cfg.char_w, tc.cfg.char_n, tc.cfg.type_w, tc.cfg.type_n, tc.cfg.dict.clone(), tc.cfg.bucket, &tdict)
        .map_err(|e| format!("Trainer::new: {e}"))?;
    for s in &sents {
        trainer.add_example(s);
    }
    let examples = trainer.verif_examples();
    let _ = verif::take_boundary_log();
    let _ = verif::take_tag_logs();
    liblinear::toggle_liblinear_stdout_output(false);
    let model = trainer.train(0.01, tc.cost, SOLVERS[tc.solver]).map_err(|e| format!("train: {e}"))?;
    Ok(Trained { model, blog: verif::take_boundary_log(), tlogs: verif::take_tag_logs(), examples })
}

// ------------------------------------------------------------------------------------------ C10

pub fn run_c10(ctx: &mut Ctx, from: u64, to: u64) {
    for k in from..to {
        ctx.begin_case(k);
        let mut rng = Rng::new(case_seed(ctx.seed, "C10", k));
        let class = *rng.pick(&[CorpusClass::Normal, CorpusClass::Normal, CorpusClass::PartialAnnotation, CorpusClass::AllUnknown, CorpusClass::SingleChar, CorpusClass::OnlyWordBoundaries]);
        let tags = rng.chance(1, 3);
        let mut tc = gen_train_case(&mut rng, 0, 4, class, tags);
        if k % 90 == 29 {
            // several hundred dictionary-word occurrences of one length bucket around the same boundary
            let x = tc.corpus.first().and_then(|s| s.chars.first().copied()).unwrap_or('あ');
            let n = rng.urange(56, 64);
            tc.corpus.push(RefSentence { chars: vec![x; n], labels: (0..n - 1).map(|_| rng.weighted(&[5, 4, 1]) as u8).collect(), tags: vec![vec![]; n] });
            tc.cfg.dict = (2..=24).map(|l| std::iter::repeat(x).take(l).collect::<String>()).collect();
            tc.cfg.bucket = 1;
            ctx.count("boundaries_touched_by_more_than_255_dictionary_occurrences", 1);
        }
        if k % 30 == 11 {
            // a sentence that is exactly the shortest dictionary word (no shorter word in the dictionary)
            let alpha: Vec<char> = tc.corpus.iter().flat_map(|s| s.chars.iter().copied()).chain("ab".chars()).collect();
            let n = rng.urange(2, 4);
            let chars = text::text_from(&mut rng, &alpha, n);
            let w: String = chars.iter().collect();
            tc.corpus.push(RefSentence { chars, labels: (0..n - 1).map(|_| rng.below(2) as u8).collect(), tags: vec![vec![]; n] });
            tc.cfg.dict.retain(|d| d.len() > w.len());
            tc.cfg.dict.push(w);
            ctx.count("sentences_equal_to_the_shortest_dictionary_word", 1);
        }
        if k % 40 == 7 {
            // a window wider than 128 around boundaries that have more than 128 characters on both sides
            let alpha: Vec<char> = tc.corpus.iter().flat_map(|s| s.chars.iter().copied()).chain("ab".chars()).collect();
            // (sentence lengths around multiples of 256 included)
            let n = if rng.chance(1, 2) { *rng.pick(&[256usize, 257, 258, 259, 512, 513, 514]) } else { rng.urange(280, 340) };
            ctx.count("sentences_with_length_at_multiple_of_256", u64::from(n % 256 < 4));
            let chars = text::text_from(&mut rng, &alpha, n);
            let labels: Vec<u8> = (0..n - 1).map(|_| rng.weighted(&[5, 4, 1]) as u8).collect();
            tc.corpus.push(RefSentence { chars, labels, tags: vec![vec![]; n] });
            if rng.chance(1, 3) {
                // keep the drawn (small) windows: the sentence length alone is the point
            } else if rng.chance(1, 2) {
                tc.cfg.char_w = rng.urange(129, 200) as u8;
                tc.cfg.char_n = tc.cfg.char_n.clamp(1, 2);
            } else {
                tc.cfg.type_w = rng.urange(129, 200) as u8;
                tc.cfg.type_n = tc.cfg.type_n.clamp(1, 2);
            }
            ctx.count("configs_with_window_above_128_and_long_sentence", 1);
        }
        if k % 400 == 13 {
            // one training sentence with character positions beyond 65535 and dictionary words near its end
            let alpha: Vec<char> = tc.corpus.iter().flat_map(|s| s.chars.iter().copied()).chain("ab".chars()).collect();
            let n = rng.urange(66_000, 70_000);
            let chars = text::text_from(&mut rng, &alpha, n);
            let labels: Vec<u8> = (0..n - 1).map(|i| if i + 40 > n { rng.below(2) as u8 } else { 2 }).collect();
            let w: String = chars[n - 6..n - 3].iter().collect();
            if !tc.cfg.dict.contains(&w) {
                tc.cfg.dict.push(w);
            }
            tc.cfg.char_w = tc.cfg.char_w.min(2);
            tc.cfg.type_w = tc.cfg.type_w.min(2);
            tc.corpus.push(RefSentence { chars, labels, tags: vec![vec![]; n] });
            ctx.count("corpora_with_sentence_longer_than_65535", 1);
        }
        let r = guard(|| {
            let sents: Vec<Sentence<'static, 'static>> = tc
                .corpus
                .iter()
                .enumerate()
                .map(|(i, rs)| {
                    if i % 2 == 0 && !rs.labels.is_empty() && rs.labels.iter().all(|&l| l == 2) && rs.max_tags() == 0 {
                        // an unannotated line loaded into an object that held the SAME text fully annotated
                        let mut full = rs.clone();
                        full.labels.iter_mut().enumerate().for_each(|(j, l)| *l = (j % 2) as u8);
                        let mut s: Sentence<'static, 'static> = Sentence::from_tokenized(&vgen::fmt::write_tokenized(&full)).expect("reference-written line");
                        s.update_raw(rs.text()).expect("update_raw");
                        s
                    } else {
                        build_sentence(rs)
                    }
                })
                .collect();
            let mut trainer = Trainer::new(tc.cfg.char_w, tc.cfg.char_n, tc.cfg.type_w, tc.cfg.type_n, tc.cfg.dict.clone(), tc.cfg.bucket, &[])
                .map_err(|e| format!("{e}"))?;
            let mut per_sentence = vec![];
            for s in &sents {
                trainer.add_example(s);
                per_sentence.push(trainer.verif_examples().len());
            }
            Ok::<_, String>((trainer.verif_examples(), per_sentence))
        });
        ctx.eval(1);
        let (examples, per_sentence) = match r {
            Ok(Ok(x)) => x,
            Ok(Err(_)) => {
                ctx.count("trainer_new_rejected", 1);
                continue;
            }
            Err(p) => {
                ctx.violation(&format!("C10:add_example_panicked:{}", panic_site(&p)), J::obj(vec![("panic", J::s(&p)), ("case", case_json(&tc))]));
                continue;
            }
        };
        // reference: one example per annotated boundary, in order
        let mut want: Vec<(Vec<(RFeature, u64)>, f64, usize, usize)> = vec![];
        let mut want_per_sentence = vec![];
        let mut unknown = 0u64;
        let mut multi = 0u64;
        for (si, s) in tc.corpus.iter().enumerate() {
            let types = ctypes(&s.chars);
            let mut all = sentence_features(&tc.cfg, &s.chars, &types);
            for (b, &l) in s.labels.iter().enumerate() {
                if l == 2 {
                    unknown += 1;
                    continue;
                }
                let mut m: BTreeMap<RFeature, u64> = BTreeMap::new();
                for f in std::mem::take(&mut all[b]) {
                    *m.entry(f).or_insert(0) += 1;
                }
                if m.values().any(|&c| c > 1) {
                    multi += 1;
                }
                want.push((m.into_iter().collect(), f64::from(l), si, b));
            }
            want_per_sentence.push(want.len());
        }
        ctx.count("unknown_boundaries_in_corpus", unknown);
        ctx.count("annotated_boundaries_in_corpus", want.len() as u64);
        ctx.count("examples_with_feature_count_above_1", multi);
        ctx.flag("configs_with_window_0", tc.cfg.char_w == 0 || tc.cfg.type_w == 0);
        ctx.flag("configs_with_n_greater_than_window", tc.cfg.char_n > tc.cfg.char_w || tc.cfg.type_n > tc.cfg.type_w);
        ctx.flag("configs_with_dictionary", !tc.cfg.dict.is_empty());
        ctx.flag("sentences_without_any_annotation", tc.corpus.iter().any(|s| !s.labels.is_empty() && s.labels.iter().all(|&l| l == 2)));
        let got: Vec<(Vec<(RFeature, u64)>, f64)> = examples
            .iter()
            .map(|(fs, y)| {
                let mut m: BTreeMap<RFeature, u64> = BTreeMap::new();
                for (f, c) in fs {
                    *m.entry(to_r(f)).or_insert(0) += *c as u64;
                }
                (m.into_iter().collect(), *y)
            })
            .collect();
        if per_sentence != want_per_sentence {
            let si = per_sentence.iter().zip(&want_per_sentence).position(|(a, b)| a != b).unwrap_or(0);
            ctx.violation(
                "C10:number_of_examples_differs_from_annotated_boundaries",
                J::obj(vec![
                    ("first_sentence_that_differs", J::i(si)),
                    ("cumulative_examples_observed", J::ints(&per_sentence)),
                    ("cumulative_annotated_boundaries", J::ints(&want_per_sentence)),
                    ("labels_handed_to_learner", J::A(examples.iter().take(40).map(|e| J::i(e.1 as i64)).collect())),
                    ("case", case_json(&tc)),
                ]),
            );
            continue;
        }
        for (i, ((gf, gy), (wf, wy, si, b))) in got.iter().zip(&want).enumerate() {
            if gy != wy {
                ctx.violation("C10:label_differs_from_annotation", J::obj(vec![("example", J::i(i)), ("sentence", J::i(*si)), ("boundary", J::i(*b)), ("expected", J::i(*wy as i64)), ("observed", J::i(*gy as i64)), ("case", case_json(&tc))]));
                break;
            }
            if gf != wf {
                let missing: Vec<String> = wf.iter().filter(|x| !gf.contains(x)).take(6).map(|x| format!("{:?}", x)).collect();
                let extra: Vec<String> = gf.iter().filter(|x| !wf.contains(x)).take(6).map(|x| format!("{:?}", x)).collect();
                ctx.violation(
                    "C10:features_differ_from_reference_extractor",
                    J::obj(vec![("example", J::i(i)), ("sentence", J::i(*si)), ("boundary", J::i(*b)), ("missing_or_wrong_count", J::strs(&missing)), ("unexpected_or_wrong_count", J::strs(&extra)), ("case", case_json(&tc))]),
                );
                break;
            }
        }
        if !want.is_empty() {
            ctx.nontrivial(digest(&tc));
        }
        if ctx.want_sample() {
            ctx.sample(J::obj(vec![("case", case_json(&tc)), ("examples", J::i(got.len())), ("unknown_boundaries", J::i(unknown))]));
        }
    }
}

// ------------------------------------------------------------------------------------------ C09

fn mirror_of(model: &Model) -> Result<ModelData, String> {
    let bytes = model.to_vec().map_err(|e| format!("to_vec: {e}"))?;
    let (m, used) = ModelData::from_bytes(&bytes)?;
    if used != bytes.len() {
        return Err("mirror did not consume the whole serialisation".into());
    }
    Ok(m)
}

pub fn run_c09(ctx: &mut Ctx, from: u64, to: u64) {
    for k in from..to {
        ctx.begin_case(k);
        let mut rng = Rng::new(case_seed(ctx.seed, "C09", k));
        let class = *rng.pick(&[CorpusClass::Normal, CorpusClass::Normal, CorpusClass::Normal, CorpusClass::PartialAnnotation]);
        // windows / n in 1..4 (window 0 is a separate, rarer class)
        let zero = k % 10 == 9;
        // a quarter of the corpora carry tags: the trained model then has tag models and the tag-carrying scorers
        // must compute the same learned boundary function
        let mut tc = gen_train_case(&mut rng, 1, 4, class, k % 4 == 1);
        if zero {
            if rng.chance(1, 2) {
                tc.cfg.char_w = 0;
            } else {
                tc.cfg.type_w = 0;
            }
        } else if k % 10 == 4 {
            // windows beyond the 7-slot score padding
            if rng.chance(1, 2) {
                tc.cfg.char_w = rng.urange(5, 12) as u8;
            } else {
                tc.cfg.type_w = rng.urange(5, 12) as u8;
            }
        }
        if k % 50 == 17 {
            // a learned n-gram that cancels its own suffix exactly: with the L1-loss SVM (dual) and a tiny cost every
            // example ends at alpha = C (a power of two), so the weights are exact multiples of C:
            // bigram XY@-1 = -C (from "XY"), unigram Y@0 = +C (from "XY", "Z|Y", "W|Y")
            let pool: Vec<char> = "火星猫犬人地球あいうアイabc".chars().collect();
            let mut cs = pool.clone();
            rng.shuffle(&mut cs);
            let (x, y, z, w) = (cs[0], cs[1], cs[2], cs[3]);
            tc.cfg = TrainConfig { char_w: 1, char_n: 2, type_w: 0, type_n: 0, dict: vec![], bucket: 1 };
            tc.corpus = vec![
                RefSentence { chars: vec![x, y], labels: vec![0], tags: vec![vec![]; 2] },
                RefSentence { chars: vec![z, y], labels: vec![1], tags: vec![vec![]; 2] },
                RefSentence { chars: vec![w, y], labels: vec![1], tags: vec![vec![]; 2] },
            ];
            tc.tag_dict = vec![];
            tc.eval = vec![vec![x, y], vec![z, y], vec![w, x, y], vec![y], vec![y, x, y, x, y]];
            tc.solver = 3;
            tc.cost = 1.0 / 64.0;
            ctx.count("trainings_constructed_so_that_an_ngram_cancels_its_suffix", 1);
        }
        if k % 3 == 2 && k % 50 != 17 {
            // an evaluation sentence with characters of every type (also types the corpus, hence the model, never saw)
            let mut t: Vec<char> = vec!['7', 'z', 'あ', 'ア', '人', '。'];
            if let Some(s) = tc.corpus.first() {
                for (i, &c) in s.chars.iter().take(6).enumerate() {
                    t.insert(2 * i + 1, c);
                }
            }
            tc.eval.push(t);
            ctx.count("evaluation_sentences_with_all_six_character_types", 1);
        }
        if k % 250 == 21 {
            // one evaluation sentence with character positions beyond 65535, training patterns near its end
            let alpha: Vec<char> = tc.corpus.iter().flat_map(|s| s.chars.iter().copied()).chain("ab".chars()).collect();
            let n = rng.urange(66_000, 70_000);
            let mut long = text::text_from(&mut rng, &alpha, n);
            if let Some(first) = tc.corpus.iter().find(|s| s.chars.len() >= 2) {
                let l = first.chars.len().min(20);
                long[n - l..].copy_from_slice(&first.chars[..l]);
            }
            tc.eval.push(long);
            tc.cfg.char_w = tc.cfg.char_w.min(3);
            tc.cfg.type_w = tc.cfg.type_w.min(3);
            ctx.count("evaluation_sentences_longer_than_65535", 1);
        }
        ctx.flag("configs_with_window_of_8_or_more", tc.cfg.char_w >= 8 || tc.cfg.type_w >= 8);
        ctx.flag("configs_with_char_window_gt_type_window", tc.cfg.char_w > tc.cfg.type_w);
        ctx.flag("configs_with_type_window_gt_char_window", tc.cfg.type_w > tc.cfg.char_w);
        ctx.flag("configs_with_window_0", zero);
        ctx.flag("configs_with_word_longer_than_bucket", tc.cfg.dict.iter().any(|w| w.chars().count() > usize::from(tc.cfg.bucket)));
        ctx.count(&format!("solver_{}", tc.solver), 1);
        let r = guard(|| train_case(&tc));
        ctx.eval(1);
        let tr = match r {
            Ok(Ok(t)) => t,
            Ok(Err(_)) => {
                ctx.count("training_returned_error", 1);
                continue;
            }
            Err(p) => {
                ctx.violation(&format!("C09:training_panicked:{}", panic_site(&p)), J::obj(vec![("panic", J::s(&p)), ("case", case_json(&tc))]));
                continue;
            }
        };
        let Some(log) = tr.blog else {
            ctx.violation("C09:hook_log_missing", case_json(&tc));
            continue;
        };
        // clause 2: every stored n-gram weight vector covers exactly the positions of its own window
        let mir = match mirror_of(&tr.model) {
            Ok(m) => m,
            Err(e) => {
                ctx.violation("C09:trained_model_unreadable_by_mirror", J::obj(vec![("error", J::s(&e)), ("case", case_json(&tc))]));
                continue;
            }
        };
        let mut bad = None;
        for d in &mir.char_ngram_model {
            let n = d.ngram.chars().count();
            if d.weights.len() + n != 2 * usize::from(mir.char_window_size) + 1 {
                bad = Some(format!("char n-gram {:?}: {} weights, window {}", d.ngram, d.weights.len(), mir.char_window_size));
            }
        }
        for d in &mir.type_ngram_model {
            if d.weights.len() + d.ngram.len() != 2 * usize::from(mir.type_window_size) + 1 {
                bad = Some(format!("type n-gram {:?}: {} weights, window {}", d.ngram, d.weights.len(), mir.type_window_size));
            }
        }
        if mir.char_window_size != tc.cfg.char_w || mir.type_window_size != tc.cfg.type_w {
            bad = Some(format!("stored windows {} / {} differ from the configuration", mir.char_window_size, mir.type_window_size));
        }
        if let Some(b) = bad {
            ctx.violation("C09:stored_weight_vector_does_not_cover_its_own_window", J::obj(vec![("what", J::s(&b)), ("case", case_json(&tc))]));
            continue;
        }
        ctx.count("trained_char_ngrams", mir.char_ngram_model.len() as u64);
        ctx.count("trained_type_ngrams", mir.type_ngram_model.len() as u64);
        ctx.count("trained_dict_words_with_nonzero_weight", mir.dict_model.iter().filter(|d| d.weights.iter().any(|&w| w != 0)).count() as u64);
        // clause 1: scores = learned quantised function
        let mut qw: BTreeMap<RFeature, i64> = BTreeMap::new();
        for (f, w) in &log.weights {
            qw.insert(to_r(f), i64::from(*w));
        }
        let model_bytes = tr.model.to_vec().unwrap_or_default();
        let has_tag_models = !mir.tag_models.is_empty();
        ctx.flag("trained_models_with_tag_models", has_tag_models);
        let pr_tag = guard(|| {
            if !has_tag_models {
                return Ok(None);
            }
            let (m2, _) = vaporetto::Model::read_slice(&model_bytes).map_err(|e| format!("{e}"))?;
            let p = Predictor::new(m2, true).map_err(|e| format!("{e}"))?;
            let mut out = vec![];
            for t in &tc.eval {
                let mut s = Sentence::from_raw(to_string(t)).map_err(|e| format!("{e}"))?;
                p.predict(&mut s);
                out.push(s.boundary_scores().to_vec());
            }
            Ok::<_, String>(Some(out))
        });
        let pr = guard(|| {
            let p = Predictor::new(tr.model, false).map_err(|e| format!("{e}"))?;
            let mut out = vec![];
            for (i, t) in tc.eval.iter().enumerate() {
                let mut s = Sentence::from_raw(to_string(t)).map_err(|e| format!("{e}"))?;
                p.predict(&mut s);
                if (i + t.len()) % 3 == 0 {
                    // the same object analysed again: the scores are the learned function, not a running sum
                    p.predict(&mut s);
                }
                out.push(s.boundary_scores().to_vec());
            }
            Ok::<_, String>(out)
        });
        ctx.count("evaluation_sentences_predicted_twice", tc.eval.iter().enumerate().filter(|(i, t)| (i + t.len()) % 3 == 0).count() as u64);
        let scores = match pr {
            Ok(Ok(s)) => s,
            Ok(Err(e)) => {
                ctx.violation("C09:trained_model_rejected_by_predictor", J::obj(vec![("error", J::s(&e)), ("case", case_json(&tc))]));
                continue;
            }
            Err(p) => {
                ctx.violation(&format!("C09:prediction_with_trained_model_panicked:{}", panic_site(&p)), J::obj(vec![("panic", J::s(&p)), ("case", case_json(&tc))]));
                continue;
            }
        };
        match pr_tag {
            Ok(Ok(None)) => {}
            Ok(Ok(Some(tag_scores))) => {
                if let Some(i) = (0..scores.len()).find(|&i| tag_scores.get(i) != scores.get(i)) {
                    ctx.violation(
                        "C09:tag_carrying_predictor_scores_differ_from_plain_predictor",
                        J::obj(vec![
                            ("text", J::s(vgen::json::clip(&to_string(&tc.eval[i]), 80))),
                            ("plain", J::ints(&scores[i][..scores[i].len().min(40)])),
                            ("with_tag_prediction", J::ints(&tag_scores[i][..tag_scores[i].len().min(40)])),
                            ("case", case_json(&tc)),
                        ]),
                    );
                    continue;
                }
            }
            Ok(Err(e)) => {
                ctx.violation("C09:trained_model_rejected_by_predictor", J::obj(vec![("error", J::s(&e)), ("predict_tags", J::B(true)), ("case", case_json(&tc))]));
                continue;
            }
            Err(p) => {
                ctx.violation(&format!("C09:prediction_with_trained_model_panicked:{}", panic_site(&p)), J::obj(vec![("panic", J::s(&p)), ("predict_tags", J::B(true)), ("case", case_json(&tc))]));
                continue;
            }
        }
        let mut nonzero = 0u64;
        'outer: for (t, sc) in tc.eval.iter().zip(&scores) {
            let types = ctypes(t);
            let all = sentence_features(&tc.cfg, t, &types);
            for b in 0..t.len().saturating_sub(1) {
                let mut want = i64::from(log.bias);
                let mut used = vec![];
                for f in all[b].iter().cloned() {
                    if let Some(w) = qw.get(&f) {
                        want += *w;
                        if *w != 0 {
                            used.push(format!("{:?}={}", f, w));
                        }
                    }
                }
                ctx.eval(1);
                if want != i64::from(log.bias) {
                    nonzero += 1;
                }
                if sc.get(b).map(|&x| i64::from(x)) != Some(want) {
                    ctx.violation(
                        "C09:score_differs_from_learned_function",
                        J::obj(vec![
                            ("text", J::s(clip(&to_string(t), 60))),
                            ("boundary", J::i(b)),
                            ("expected", J::i(want)),
                            ("observed", J::ints(sc)),
                            ("bias", J::i(log.bias)),
                            ("features_with_nonzero_weight", J::strs(&used[..used.len().min(30)])),
                            ("case", case_json(&tc)),
                        ]),
                    );
                    break 'outer;
                }
            }
        }
        ctx.count("boundaries_scored_with_nonzero_feature_weight", nonzero);
        if nonzero > 0 {
            ctx.nontrivial(digest(&tc));
        }
        if ctx.want_sample() {
            ctx.sample(J::obj(vec![("case", case_json(&tc)), ("learned_bias", J::i(log.bias)), ("learned_features", J::i(log.weights.len())), ("eval_sentences", J::i(tc.eval.len()))]));
        }
    }
}

// ------------------------------------------------------------------------------------------ C11

/// Everything a user does with a trained model; returns Err(signature, detail) on a violation.
fn use_model(model: Model, rng: &mut Rng, alpha_texts: &[Vec<char>]) -> Result<(), (String, String)> {
    let bytes = model.to_vec().map_err(|e| ("C11:trained_model_cannot_be_serialised".to_string(), format!("{e}")))?;
    let mut w = vec![];
    model.write(&mut w).map_err(|e| ("C11:trained_model_cannot_be_written".to_string(), format!("{e}")))?;
    if w != bytes {
        return Err(("C11:written_model_differs_from_to_vec".into(), format!("{} vs {} bytes", w.len(), bytes.len())));
    }
    // a writer that accepts only part of each buffer (what a compressing or network writer does)
    struct Short(Vec<u8>, usize);
    impl std::io::Write for Short {
        fn write(&mut self, buf: &[u8]) -> std::io::Result<usize> {
            let n = buf.len().min(self.1);
            self.0.extend_from_slice(&buf[..n]);
            Ok(n)
        }
        fn flush(&mut self) -> std::io::Result<()> {
            Ok(())
        }
    }
    let mut sw = Short(vec![], 1 + bytes.len() % 61);
    model.write(&mut sw).map_err(|e| ("C11:trained_model_cannot_be_written".to_string(), format!("short writer: {e}")))?;
    if sw.0 != bytes {
        return Err(("C11:model_written_through_short_writer_is_incomplete".into(), format!("{} of {} bytes", sw.0.len(), bytes.len())));
    }
    let (mir, _) = ModelData::from_bytes(&bytes).map_err(|e| ("C11:trained_model_unreadable_by_mirror".to_string(), e))?;
    let in16 = |w: &i32| (-32768..=32767).contains(w);
    let all16 = mir.char_ngram_model.iter().all(|d| d.weights.iter().all(in16))
        && mir.type_ngram_model.iter().all(|d| d.weights.iter().all(in16))
        && mir.dict_model.iter().all(|d| d.weights.iter().all(in16))
        && in16(&mir.bias)
        && mir.tag_models.iter().all(|t| {
            t.bias.iter().all(in16)
                && t.char_ngram_model.iter().all(|d| d.weights.iter().all(|w| w.weights.iter().all(in16)))
                && t.type_ngram_model.iter().all(|d| d.weights.iter().all(|w| w.weights.iter().all(in16)))
        });
    if !all16 {
        return Err(("C11:weight_outside_16_bit_range".into(), mir.summary()));
    }
    for tags in [false, true] {
        let m = Model::read(std::io::Cursor::new(&w)).map_err(|e| ("C11:written_model_cannot_be_read".to_string(), format!("{e}")))?;
        let mut p = Predictor::new(m, tags).map_err(|e| ("C11:trained_model_rejected_by_predictor".to_string(), format!("predict_tags={tags}: {e}")))?;
        let stored = rng.chance(1, 2);
        if tags {
            p.store_tag_scores(stored);
        }
        for t in alpha_texts {
            let mut s = Sentence::from_raw(to_string(t)).unwrap();
            p.predict(&mut s);
            if tags {
                s.fill_tags();
            }
            let _ = observe(&s, tags && stored);
        }
    }
    Ok(())
}

pub fn run_c11(ctx: &mut Ctx, from: u64, to: u64) {
    for k in from..to {
        ctx.begin_case(k);
        let mut rng = Rng::new(case_seed(ctx.seed, "C11", k));
        let class = CLASSES[(k % CLASSES.len() as u64) as usize];
        let tags = rng.chance(2, 3);
        let mut tc = gen_train_case(&mut rng, 0, 4, class, tags);
        tc.solver = ((k / CLASSES.len() as u64) % 8) as usize;
        if k % 9 == 4 {
            // windows beyond the score padding (8 and more)
            if rng.chance(1, 2) {
                tc.cfg.char_w = rng.urange(5, 16) as u8;
            }
            if rng.chance(1, 2) {
                tc.cfg.type_w = rng.urange(5, 16) as u8;
            }
        }
        if k % 25 == 11 {
            // the upper half of the u8 range (the configuration type allows any window up to 255)
            let big = *rng.pick(&[127usize, 128, 129, 144, 200, 254, 255]) as u8;
            match rng.below(3) {
                0 => tc.cfg.char_w = big,
                1 => tc.cfg.type_w = big,
                _ => {
                    tc.cfg.char_w = big;
                    tc.cfg.type_w = *rng.pick(&[128usize, 255]) as u8;
                }
            }
            tc.cfg.char_n = tc.cfg.char_n.min(2);
            tc.cfg.type_n = tc.cfg.type_n.min(2);
        }
        if k % 45 == 31 {
            // no character n-gram features at all and a dictionary whose words never occur in the corpus
            if rng.chance(1, 2) {
                tc.cfg.char_w = 0;
            } else {
                tc.cfg.char_n = 0;
            }
            tc.cfg.dict = vec!["\u{2603}\u{2603}".to_string(), "\u{2603}q\u{2604}".to_string()];
            ctx.count("configs_without_char_ngrams_and_with_unseen_dictionary", 1);
        }
        if k % 60 == 17 {
            // a blank dictionary word next to real ones (an error is a legal answer, a panic is not)
            let at = rng.below(tc.cfg.dict.len() + 1);
            tc.cfg.dict.insert(at, String::new());
            ctx.count("dictionaries_with_blank_word", 1);
        }
        ctx.flag("configs_with_char_window_of_128_or_more", tc.cfg.char_w >= 128);
        ctx.flag("configs_with_type_window_of_128_or_more", tc.cfg.type_w >= 128);
        ctx.flag("configs_with_window_of_8_or_more", tc.cfg.char_w >= 8 || tc.cfg.type_w >= 8);
        if k == 0 {
            // one large dictionary: the trained model decodes to more than 16 MiB of containers
            let alpha: Vec<char> = (0..60).map(|i| char::from_u32(0x4E00 + i).unwrap()).collect();
            tc.cfg.dict = (0..60_000usize)
                .map(|i| {
                    let mut w = String::new();
                    let mut x = i;
                    for _ in 0..3 {
                        w.push(alpha[x % 60]);
                        x /= 60;
                    }
                    for j in 0..75 {
                        w.push(alpha[(i + j) % 60]);
                    }
                    w
                })
                .collect();
            tc.cfg.bucket = 4;
            ctx.count("cases_with_large_dictionary", 1);
        }
        ctx.count(&format!("corpus_class_{}", tc.class), 1);
        ctx.count(&format!("solver_{}", tc.solver), 1);
        ctx.flag("configs_with_type_window_gt_char_window", tc.cfg.type_w > tc.cfg.char_w);
        ctx.flag("configs_with_n_greater_than_window", tc.cfg.char_n > tc.cfg.char_w || tc.cfg.type_n > tc.cfg.type_w);
        ctx.flag("configs_with_window_0", tc.cfg.char_w == 0 || tc.cfg.type_w == 0);
        ctx.flag("corpora_with_tags", tc.corpus.iter().any(|s| s.max_tags() > 0));
        let r = guard(|| train_case(&tc));
        ctx.eval(1);
        let tr = match r {
            Ok(Ok(t)) => t,
            Ok(Err(_)) => {
                ctx.count("training_returned_error", 1);
                ctx.nontrivial(digest(&tc));
                continue;
            }
            Err(p) => {
                ctx.violation(&format!("C11:training_panicked:{}", panic_site(&p)), J::obj(vec![("panic", J::s(&p)), ("case", case_json(&tc))]));
                continue;
            }
        };
        ctx.count("training_returned_model", 1);
        let mut texts = tc.eval.clone();
        texts.push(text::hostile_string(&mut rng, 20).replace('\0', "").chars().collect());
        texts.retain(|t: &Vec<char>| !t.is_empty());
        let r = guard(|| use_model(tr.model, &mut rng, &texts));
        ctx.eval(1);
        match r {
            Ok(Ok(())) => {}
            Ok(Err((sig, what))) => ctx.violation(&sig, J::obj(vec![("what", J::s(&what)), ("case", case_json(&tc))])),
            Err(p) => ctx.violation(&format!("C11:using_trained_model_panicked:{}", panic_site(&p)), J::obj(vec![("panic", J::s(&p)), ("case", case_json(&tc))])),
        }
        ctx.nontrivial(digest(&tc));
        if ctx.want_sample() {
            ctx.sample(case_json(&tc));
        }
    }
}

// ------------------------------------------------------------------------------------------ C12

fn trim_empty(v: &[BTreeSet<String>]) -> Vec<BTreeSet<String>> {
    let mut v = v.to_vec();
    while v.last().map(|s| s.is_empty()).unwrap_or(false) {
        v.pop();
    }
    v
}

pub fn run_c12(ctx: &mut Ctx, from: u64, to: u64) {
    for k in from..to {
        ctx.begin_case(k);
        let mut rng = Rng::new(case_seed(ctx.seed, "C12", k));
        let class = *rng.pick(&[CorpusClass::Normal, CorpusClass::AmbiguousTags, CorpusClass::AmbiguousTags, CorpusClass::PartiallyTagged, CorpusClass::PartialAnnotation]);
        let mut tc = gen_train_case(&mut rng, 1, 3, class, true);
        if k % 25 == 7 {
            // a corpus without any tag: the trained model has no tag category, so no token may ever be given a tag
            for s in tc.corpus.iter_mut() {
                s.tags.iter_mut().for_each(|t| t.clear());
            }
            tc.tag_dict.clear();
            ctx.count("corpora_without_any_tag", 1);
        }
        let tc = tc;
        ctx.count(&format!("solver_{}", tc.solver), 1);
        let r = guard(|| train_case(&tc));
        ctx.eval(1);
        let tr = match r {
            Ok(Ok(t)) => t,
            Ok(Err(_)) => {
                ctx.count("training_returned_error", 1);
                continue;
            }
            Err(p) => {
                ctx.violation(&format!("C12:training_panicked:{}", panic_site(&p)), J::obj(vec![("panic", J::s(&p)), ("case", case_json(&tc))]));
                continue;
            }
        };
        let mir = match mirror_of(&tr.model) {
            Ok(m) => m,
            Err(e) => {
                ctx.violation("C12:trained_model_unreadable_by_mirror", J::obj(vec![("error", J::s(&e)), ("case", case_json(&tc))]));
                continue;
            }
        };
        // --- expected tag sets
        // tokens seen with at least one present tag in the corpus
        let mut seen: BTreeMap<String, Vec<BTreeSet<String>>> = BTreeMap::new();
        // tokens occurring in the corpus inside a tagged sentence (with or without tags)
        let mut in_tagged_sentence: BTreeSet<String> = BTreeSet::new();
        for s in &tc.corpus {
            let nt = s.max_tags();
            if nt == 0 {
                continue;
            }
            for sp in ref_partition(s.chars.len(), &s.labels) {
                let surf: String = s.chars[sp.start..sp.end].iter().collect();
                in_tagged_sentence.insert(surf.clone());
                let ts = &s.tags[sp.end - 1];
                if ts.iter().any(|t| t.is_some()) {
                    let e = seen.entry(surf).or_default();
                    if e.len() < ts.len() {
                        e.resize(ts.len(), BTreeSet::new());
                    }
                    for (j, t) in ts.iter().enumerate() {
                        if let Some(t) = t {
                            e[j].insert(t.clone());
                        }
                    }
                }
            }
        }
        let mut dict_only: BTreeMap<String, Vec<BTreeSet<String>>> = BTreeMap::new();
        for s in &tc.tag_dict {
            for sp in ref_partition(s.chars.len(), &s.labels) {
                let surf: String = s.chars[sp.start..sp.end].iter().collect();
                let ts = &s.tags[sp.end - 1];
                if !in_tagged_sentence.contains(&surf) && ts.iter().any(|t| t.is_some()) {
                    dict_only.insert(surf, ts.iter().map(|t| t.iter().cloned().collect()).collect());
                }
            }
        }
        ctx.count("tokens_seen_with_tags", seen.len() as u64);
        ctx.count("tokens_only_in_tag_dictionary", dict_only.len() as u64);
        let detail = |what: String| J::obj(vec![("what", J::s(&what)), ("case", case_json(&tc))]);
        let mut ok = true;
        // uniqueness of tokens in the model
        let mut toks: BTreeSet<&str> = BTreeSet::new();
        for tm in &mir.tag_models {
            if !toks.insert(tm.token.as_str()) {
                ctx.violation("C12:token_listed_twice_in_tag_models", detail(tm.token.clone()));
                ok = false;
            }
        }
        for (tok, cats) in seen.iter().chain(dict_only.iter()) {
            if !ok {
                break;
            }
            let Some(tm) = mir.tag_models.iter().find(|t| &t.token == tok) else {
                ctx.violation("C12:token_with_tags_has_no_tag_model", detail(format!("token {:?} expected {:?}", tok, cats)));
                ok = false;
                break;
            };
            let got: Vec<BTreeSet<String>> = tm.tags.iter().map(|c| c.iter().cloned().collect()).collect();
            let dup = tm.tags.iter().any(|c| c.iter().collect::<BTreeSet<_>>().len() != c.len());
            if dup {
                ctx.violation("C12:candidate_listed_twice", detail(format!("token {:?}: {:?}", tok, tm.tags)));
                ok = false;
                break;
            }
            if trim_empty(&got) != trim_empty(cats) {
                ctx.violation("C12:candidate_lists_differ_from_tags_observed", detail(format!("token {:?}: model {:?}, observed in training data {:?}", tok, tm.tags, cats)));
                ok = false;
                break;
            }
            let n_class = ModelData::n_classes(tm);
            let lens_ok = tm.bias.len() == n_class
                && tm.char_ngram_model.iter().all(|d| d.weights.iter().all(|w| w.weights.len() == n_class))
                && tm.type_ngram_model.iter().all(|d| d.weights.iter().all(|w| w.weights.len() == n_class));
            if !lens_ok {
                ctx.violation("C12:score_vector_length_differs_from_trainable_candidates", detail(format!("token {:?}: {} trainable candidates, bias has {}", tok, n_class, tm.bias.len())));
                ok = false;
                break;
            }
            ctx.count("categories_with_single_tag", cats.iter().filter(|c| c.len() == 1).count() as u64);
            ctx.count("categories_with_several_tags", cats.iter().filter(|c| c.len() >= 2).count() as u64);
            ctx.flag("tokens_with_three_ambiguous_categories", cats.iter().filter(|c| c.len() >= 2).count() >= 3);
        }
        if !ok {
            continue;
        }
        // --- behaviour on evaluation sentences with forced boundaries
        let known: BTreeMap<String, Vec<BTreeSet<String>>> = seen.iter().chain(dict_only.iter()).map(|(k, v)| (k.clone(), v.clone())).collect();
        let n_tags_model = mir.n_tags();
        let logs = tr.tlogs;
        let r = guard(|| -> Result<(u64, u64), (String, String)> {
            let mut p = Predictor::new(tr.model, true).map_err(|e| ("C12:trained_model_rejected_by_predictor".to_string(), format!("{e}")))?;
            let stored = true;
            p.store_tag_scores(stored);
            let mut checked = 0u64;
            let mut scored = 0u64;
            let mut rng2 = rng.fork();
            for t in &tc.eval {
                let types = ctypes(t);
                let mut s = Sentence::from_raw(to_string(t)).unwrap();
                // the object already carries tags of some earlier use (they are not this model's tags)
                if t.len() % 2 == 0 {
                    s.reset_tags(2);
                    for x in s.tags_mut().iter_mut() {
                        *x = Some(std::borrow::Cow::Borrowed("STALE"));
                    }
                }
                p.predict(&mut s);
                // force boundaries so that known tokens occur
                let mut labels: Vec<u8> = s.boundaries().iter().map(|&b| label_of(b)).collect();
                for tok in known.keys() {
                    let g: Vec<char> = tok.chars().collect();
                    if g.len() > t.len() {
                        continue;
                    }
                    for st in 0..=t.len() - g.len() {
                        if t[st..st + g.len()] == g[..] && rng2.chance(1, 2) {
                            if st > 0 {
                                labels[st - 1] = 1;
                            }
                            for l in labels[st..st + g.len() - 1].iter_mut() {
                                *l = 0;
                            }
                            if st + g.len() < t.len() {
                                labels[st + g.len() - 1] = 1;
                            }
                        }
                    }
                }
                for (b, &l) in s.boundaries_mut().iter_mut().zip(&labels) {
                    *b = boundary_of(l);
                }
                s.fill_tags();
                let obs = observe(&s, stored);
                for (ti, tk) in obs.tokens.iter().enumerate() {
                    let where_ = || format!("text {:?} token {:?} ({}..{}) tags {:?}", to_string(t), tk.surface, tk.start, tk.end, tk.tags);
                    match known.get(&tk.surface) {
                        Some(cats) => {
                            checked += 1;
                            for (j, c) in cats.iter().enumerate() {
                                let got = tk.tags.get(j).cloned().flatten();
                                if c.len() == 1 && got.as_ref() != c.iter().next() {
                                    return Err(("C12:token_seen_with_single_tag_got_another".into(), where_()));
                                }
                                if c.len() >= 2 && !got.as_ref().map(|g| c.contains(g)).unwrap_or(false) {
                                    return Err(("C12:token_got_a_tag_never_observed_for_it".into(), where_()));
                                }
                                if c.is_empty() && got.is_some() {
                                    return Err(("C12:token_got_a_tag_in_a_category_without_observations".into(), where_()));
                                }
                            }
                            // score clause: stored scores = learned quantised classifier on the trainer's features
                            if let Some(cands) = obs.cands.as_ref() {
                                let feats: BTreeSet<RFeature> = tag_features(tc.cfg.char_n, tc.cfg.type_n, t, &types, tk.start, tk.end).into_iter().collect();
                                for (j, cand) in cands[ti].iter().enumerate() {
                                    if cand.len() < 2 {
                                        continue;
                                    }
                                    let Some(log) = logs.iter().find(|l| l.token == tk.surface && l.category == j) else {
                                        return Err(("C12:no_training_log_for_trainable_category".into(), where_()));
                                    };
                                    for (tag, sc) in cand {
                                        let Some(cls) = log.classes.iter().position(|c| c == tag) else {
                                            return Err(("C12:candidate_unknown_to_the_learner".into(), where_()));
                                        };
                                        let mut want: i64 = log.biases.iter().filter(|(c, _)| *c == cls).map(|(_, b)| i64::from(*b)).sum();
                                        for (f, c, w) in &log.weights {
                                            if *c == cls && feats.contains(&to_r(f)) {
                                                want += i64::from(*w);
                                            }
                                        }
                                        scored += 1;
                                        if want != i64::from(*sc) {
                                            return Err((
                                                "C12:stored_tag_score_differs_from_learned_classifier".into(),
                                                format!("{} category {} candidate {:?}: expected {} observed {}", where_(), j, tag, want, sc),
                                            ));
                                        }
                                    }
                                }
                            }
                        }
                        None => {
                            if !in_tagged_sentence.contains(&tk.surface) && tk.tags.iter().any(|t| t.is_some()) {
                                return Err(("C12:token_never_seen_got_a_tag".into(), where_()));
                            }
                        }
                    }
                }
            }
            Ok((checked, scored))
        });
        ctx.eval(1);
        match r {
            Ok(Ok((checked, scored))) => {
                ctx.count("evaluation_tokens_with_known_tags", checked);
                ctx.count("candidate_scores_compared_with_learned_classifier", scored);
                if checked > 0 {
                    ctx.nontrivial(digest(&tc));
                }
            }
            Ok(Err((sig, what))) => ctx.violation(&sig, detail(what)),
            Err(p) => ctx.violation(&format!("C12:prediction_with_trained_model_panicked:{}", panic_site(&p)), J::obj(vec![("panic", J::s(&p)), ("case", case_json(&tc))])),
        }
        if ctx.want_sample() {
            ctx.sample(J::obj(vec![
                ("case", case_json(&tc)),
                ("tokens_seen_with_tags", J::s(format!("{:?}", seen))),
                ("tokens_only_in_dictionary", J::s(format!("{:?}", dict_only))),
                ("tag_models_in_trained_model", J::A(mir.tag_models.iter().map(|t| J::s(format!("{:?} -> {:?}", t.token, t.tags))).collect())),
            ]));
        }
    }
}

// ------------------------------------------------------------------------------------------ C13 (trained models)

/// Trains small models (windows 1..3, often with a character window narrower than the type window) and stores
/// them with their evaluation texts for the feature-matrix builds.
pub fn run_c13t(ctx: &mut Ctx, from: u64, to: u64) {
    for k in from..to {
        ctx.begin_case(k);
        let mut rng = Rng::new(case_seed(ctx.seed, "C13t", k));
        let mut tc = gen_train_case(&mut rng, 1, 3, CorpusClass::Normal, false);
        if k % 2 == 0 && tc.cfg.char_w >= tc.cfg.type_w {
            std::mem::swap(&mut tc.cfg.char_w, &mut tc.cfg.type_w);
        }
        ctx.flag("trained_configs_with_char_window_below_type_window", tc.cfg.char_w < tc.cfg.type_w);
        let path = format!("{}/trained-{k}.bin", ctx.scratch);
        let _ = std::fs::remove_file(&path);
        let r = guard(|| train_case(&tc));
        ctx.eval(1);
        let Ok(Ok(tr)) = r else {
            ctx.count("training_returned_error", 1);
            continue;
        };
        let Ok(bytes) = tr.model.to_vec() else { continue };
        let mut blob = vec![];
        blob.extend_from_slice(&(bytes.len() as u32).to_le_bytes());
        blob.extend_from_slice(&bytes);
        let texts: Vec<String> = tc.eval.iter().map(|t| to_string(t)).filter(|t| !t.is_empty() && !t.contains('\0')).collect();
        blob.extend_from_slice(&(texts.len() as u32).to_le_bytes());
        for t in &texts {
            blob.extend_from_slice(&(t.len() as u32).to_le_bytes());
            blob.extend_from_slice(t.as_bytes());
        }
        std::fs::write(&path, blob).expect("write trained model");
        ctx.count("trained_models_stored_for_the_feature_matrix", 1);
        ctx.nontrivial(digest(&tc));
    }
}
