//! C08 (histories): a sentence object reused after any sequence of operations behaves like a fresh one.

use std::borrow::Cow;

use vaporetto::{Predictor, Sentence};
use vgen::gen::{gen_case, GenOpts, TagMode};
use vgen::json::{clip, J};
use vgen::rng::{case_seed, fnv, Rng};
use vgen::text::to_string;

use crate::ctx::{guard, panic_site, Ctx};
use crate::p_filters::FilterSpec;
use crate::p_sentence::{sut_update, Fmt};
use crate::sut::*;

#[derive(Clone, Debug)]
enum Op {
    Update(Fmt, String),
    Predict(usize),
    FillTags,
    ResetTags(usize),
    Filter(FilterSpec),
    WriteBoundaries(u64),
    WriteTags(u64),
}

fn op_name(op: &Op, names: &[String]) -> String {
    match op {
        Op::Update(f, s) => format!("update_{}({:?})", f.name(), clip(s, 40)),
        Op::Predict(i) => format!("predict[{}]", names[*i]),
        Op::FillTags => "fill_tags".into(),
        Op::ResetTags(k) => format!("reset_tags({k})"),
        Op::Filter(f) => format!("filter[{}]", f.name()),
        Op::WriteBoundaries(_) => "write through boundaries_mut".into(),
        Op::WriteTags(_) => "write through tags_mut".into(),
    }
}

struct P {
    pred: Predictor,
    tags: bool,
    stored: bool,
    name: String,
    model: usize,
}

pub fn run_c08(ctx: &mut Ctx, from: u64, to: u64) {
    run_hist(ctx, from, to, false)
}

/// C05 with predictors in the history: after every update_* the complete observable state must be
/// the one of a fresh parse (or the default sentence after a failed update), whatever ran before.
pub fn run_c05p(ctx: &mut Ctx, from: u64, to: u64) {
    run_hist(ctx, from, to, true)
}

fn run_hist(ctx: &mut Ctx, from: u64, to: u64, update_state_mode: bool) {
    for k in from..to {
        ctx.begin_case(k);
        let mut rng = Rng::new(case_seed(ctx.seed, if update_state_mode { "C05p" } else { "C08h" }, k));
        let mut o = GenOpts::default();
        o.max_text_len = 40;
        o.max_window = 16;
        o.tags = TagMode::Always;
        o.min_texts = 3;
        let case_a = gen_case(&mut rng, &o);
        o.tags = TagMode::Maybe;
        let case_b = gen_case(&mut rng, &o);
        let cases = [&case_a, &case_b];
        // predictors: A plain, A tags (stored / not), B plain, B tags
        let mut preds: Vec<P> = vec![];
        let built = guard(|| {
            let mut v = vec![];
            for (mi, c) in cases.iter().enumerate() {
                let name = if mi == 0 { "A" } else { "B" };
                v.push(P { pred: new_predictor(&c.model, false)?, tags: false, stored: false, name: format!("{name}:plain"), model: mi });
                if !c.model.tag_models.is_empty() {
                    for stored in [false, true] {
                        let mut p = new_predictor(&c.model, true)?;
                        p.store_tag_scores(stored);
                        v.push(P { pred: p, tags: true, stored, name: format!("{name}:tags{}", if stored { "+scores" } else { "" }), model: mi });
                    }
                }
            }
            Ok::<_, String>(v)
        });
        match built {
            Ok(Ok(v)) => preds = v,
            _ => {
                ctx.count("cases_skipped_predictor_construction_failed", 1);
            }
        }
        if preds.is_empty() {
            continue;
        }
        let names: Vec<String> = preds.iter().map(|p| p.name.clone()).collect();
        let all_texts: Vec<Vec<char>> = case_a.texts.iter().chain(case_b.texts.iter()).cloned().collect();
        // history
        let n_ops = rng.below(9);
        let mut ops = vec![];
        for _ in 0..n_ops {
            let op = match rng.weighted(&[18, 8, 10, 10, 22, 10, 8, 10, 4, 4]) {
                0 => {
                    let t: &Vec<char> = rng.pick(&all_texts);
                    Op::Update(Fmt::Raw, to_string(t))
                }
                1 => Op::Update(Fmt::Raw, match rng.below(3) {
                    0 => String::new(),
                    1 => "a\0b".into(),
                    // a genuine one-space text (handed over as a borrowed literal, see below)
                    _ => " ".into(),
                }),
                2 => Op::Update(Fmt::Tok, {
                    let t: &Vec<char> = rng.pick(&all_texts);
                    let mut s = String::new();
                    for (i, c) in t.iter().enumerate() {
                        if [' ', '/', '\\'].contains(c) {
                            s.push('\\');
                        }
                        s.push(*c);
                        if i + 1 < t.len() && rng.chance(1, 3) {
                            if rng.chance(1, 2) {
                                s.push_str("/X/Y");
                            }
                            s.push(' ');
                        }
                    }
                    if rng.chance(1, 2) {
                        s.push_str("/Z");
                    }
                    s
                }),
                3 => Op::Update(Fmt::Part, {
                    let t: &Vec<char> = rng.pick(&all_texts);
                    let mut s = String::new();
                    for (i, c) in t.iter().enumerate() {
                        s.push(*c);
                        if rng.chance(1, 4) {
                            s.push_str("/T");
                        }
                        if i + 1 < t.len() {
                            s.push(*rng.pick(&['|', '-', ' ']));
                        }
                    }
                    s
                }),
                4 => Op::Predict(rng.below(preds.len())),
                5 => Op::FillTags,
                6 => Op::ResetTags(rng.below(4)),
                7 => Op::Filter(match rng.below(4) {
                    0 => FilterSpec::WsConst(rng.below(6)),
                    1 => FilterSpec::Linebreaks,
                    2 => FilterSpec::Graphemes,
                    _ => FilterSpec::Tagger(vec![(to_string(&rng.pick(&all_texts)[..1]), vec![Some("R".into()), None, Some("S".into())])]),
                }),
                8 => Op::WriteBoundaries(rng.next_u64()),
                _ => Op::WriteTags(rng.next_u64()),
            };
            ops.push(op);
        }
        // rare: a very long line somewhere in the history (buffers beyond any small internal capacity)
        if rng.chance(1, 25) {
            let alpha: Vec<char> = case_a.texts.iter().flatten().copied().collect();
            let n = rng.urange(4200, 9000);
            let long = to_string(&vgen::text::text_from(&mut rng, &alpha, n));
            let at = rng.below(ops.len() + 1);
            let pi = rng.below(preds.len());
            ops.insert(at, Op::Predict(pi));
            ops.insert(at, Op::Update(Fmt::Raw, long));
            if preds[pi].tags && rng.chance(1, 2) {
                ops.insert(at + 2, Op::FillTags);
            }
            ctx.count("histories_with_line_longer_than_4096_chars", 1);
        }
        let final_pred = rng.below(preds.len());
        let mut final_text = rng.pick(&all_texts).to_vec();
        // pure single-byte text before and after an annotated multi-byte line (position tables of three kinds in a row)
        if rng.chance(1, 8) {
            const ASCII: &[char] = &['a', 'b', 'Z', '0', '7', '9', ' ', '-', 'x'];
            let n1 = rng.urange(1, 14);
            let n2 = rng.urange(1, 14);
            let a1: String = (0..n1).map(|_| *rng.pick(ASCII)).collect();
            final_text = (0..n2).map(|_| *rng.pick(ASCII)).collect();
            ops.push(Op::Update(Fmt::Raw, a1));
            ops.push(if rng.chance(1, 2) {
                Op::Update(Fmt::Tok, "火星/名詞 猫 の 𠮷野家/名詞/ヨシノヤ é".to_string())
            } else {
                Op::Update(Fmt::Part, "火-星/名詞|猫 の|𠮷-野-家/名詞|é-é".to_string())
            });
            ctx.count("histories_with_ascii_raw_then_annotated_multibyte_then_ascii_raw", 1);
        }
        // the object last held a text of the same byte and character counts (a permutation of the final one)
        if rng.chance(1, 5) {
            let mut perm = final_text.clone();
            if rng.chance(1, 2) {
                rng.shuffle(&mut perm);
            } else {
                perm.rotate_left(1);
            }
            if perm != final_text {
                ctx.count("histories_ending_on_permutation_of_final_text", 1);
            }
            ops.push(Op::Update(Fmt::Raw, to_string(&perm)));
            if rng.chance(1, 2) {
                ops.push(Op::Predict(rng.below(preds.len())));
            }
        } else if rng.chance(1, 8) {
            ops.push(Op::Update(Fmt::Raw, to_string(&final_text)));
            if rng.chance(1, 2) {
                ops.push(Op::WriteBoundaries(rng.next_u64()));
            } else {
                // the very same text was just analysed by (usually) another predictor
                ops.push(Op::Predict(rng.below(preds.len())));
                ctx.count("histories_where_another_predictor_just_analysed_the_final_text", 1);
            }
            ctx.count("histories_ending_on_final_text_itself_with_labels", 1);
        }
        let fp = &preds[final_pred];
        let with_cands = fp.tags && fp.stored;
        let history_json = |upto: usize| {
            let mut v: Vec<J> = ops[..upto].iter().map(|o| J::s(op_name(o, &names))).collect();
            v.push(J::s(format!("update_raw({:?}); predict[{}]{}", clip(&to_string(&final_text), 40), fp.name, if fp.tags { "; fill_tags" } else { "" })));
            J::A(v)
        };
        // run the history on one object
        let mut s: Sentence<'static, '_> = Sentence::default();
        let mut linked: Option<usize> = None;
        let mut failed = false;
        let mut prev_n_tags_nonzero = false;
        let mut last_failed_update = false;
        let mut other_predictor_used = false;
        for (i, op) in ops.iter().enumerate() {
            let r = guard(|| match op {
                Op::Update(f, inp) => {
                    let ok = if *f == Fmt::Raw && inp == " " {
                        // borrowed text: the same representation the fallback sentence uses internally
                        s.update_raw(" ").is_ok()
                    } else {
                        sut_update(&mut s, *f, inp).is_ok()
                    };
                    (None, !ok)
                }
                Op::Predict(pi) => {
                    preds[*pi].pred.predict(&mut s);
                    (Some(Some(*pi)), false)
                }
                Op::FillTags => {
                    // documented panic: fill_tags with a predictor created without tag prediction
                    if linked.map(|l| preds[l].tags).unwrap_or(true) {
                        s.fill_tags();
                    }
                    (Some(linked), false)
                }
                Op::ResetTags(k) => {
                    s.reset_tags(*k);
                    (Some(linked), false)
                }
                Op::Filter(f) => {
                    f.build().filter(&mut s);
                    (Some(linked), false)
                }
                Op::WriteBoundaries(seed) => {
                    let mut r = Rng::new(*seed);
                    for b in s.boundaries_mut() {
                        *b = boundary_of(r.below(3) as u8);
                    }
                    (Some(linked), false)
                }
                Op::WriteTags(seed) => {
                    let mut r = Rng::new(*seed);
                    for t in s.tags_mut() {
                        *t = if r.chance(1, 2) { Some(Cow::Borrowed("W")) } else { None };
                    }
                    (Some(linked), false)
                }
            });
            ctx.eval(1);
            if update_state_mode {
                if let (Ok(_), Op::Update(f, inp)) = (&r, op) {
                    let got = guard(|| observe(&s, false));
                    let want = guard(|| match crate::p_sentence::sut_from(*f, inp) {
                        Ok(fresh) => observe(&fresh, false),
                        Err(_) => crate::p_sentence::default_obs(),
                    });
                    ctx.eval(1);
                    ctx.count("updates_checked_after_histories_with_predictors", 1);
                    match (got, want) {
                        (Ok(a), Ok(b)) => {
                            if a != b {
                                let what = if a.scores != b.scores { "scores" } else if a.n_tags != b.n_tags || a.tags != b.tags { "tags" } else { "other" };
                                ctx.violation(
                                    &format!("C05:state_after_update_in_history_with_predictors_differs_from_fresh_parse:{what}"),
                                    J::obj(vec![("history", history_json(i + 1)), ("observed", a.to_json()), ("expected", b.to_json())]),
                                );
                                failed = true;
                            }
                        }
                        (Err(p), _) => {
                            ctx.violation(
                                &format!("C05:accessor_panicked_after_update_in_history_with_predictors:{}", panic_site(&p)),
                                J::obj(vec![("history", history_json(i + 1)), ("panic", J::s(&p))]),
                            );
                            failed = true;
                        }
                        _ => {}
                    }
                    if failed {
                        break;
                    }
                }
            }
            // every intermediate state must be readable (accessors, iterator, both writers)
            if r.is_ok() {
                let seen = guard(|| observe(&s, false));
                ctx.eval(1);
                ctx.count("intermediate_states_read", 1);
                if let Err(p) = seen {
                    ctx.violation(
                        &format!("{}:accessors_panicked_on_intermediate_state:{}", if update_state_mode { "C05" } else { "C08" }, panic_site(&p)),
                        J::obj(vec![("history", history_json(i + 1)), ("after_step", J::s(op_name(op, &names))), ("panic", J::s(&p))]),
                    );
                    failed = true;
                    break;
                }
            }
            match r {
                Ok((l, upd_failed)) => {
                    linked = l.unwrap_or(None);
                    last_failed_update = upd_failed;
                    if let Op::Predict(pi) = op {
                        if *pi != final_pred {
                            other_predictor_used = true;
                        }
                    }
                    if s.n_tags() > 0 {
                        prev_n_tags_nonzero = true;
                    }
                }
                Err(p) => {
                    ctx.violation(
                        &format!("C08:history_step_panicked:{}", panic_site(&p)),
                        J::obj(vec![("history", history_json(i + 1)), ("failed_step", J::s(op_name(op, &names))), ("panic", J::s(&p)), ("model_a", model_json(&case_a.model)), ("model_b", model_json(&case_b.model))]),
                    );
                    failed = true;
                    break;
                }
            }
        }
        if failed {
            continue;
        }
        if update_state_mode {
            ctx.count("history_ops", ops.len() as u64);
            ctx.nontrivial(fnv(format!("{:?}", ops).as_bytes()));
            continue;
        }
        let txt = to_string(&final_text);
        let reused = guard(|| {
            s.update_raw(txt.clone()).map_err(|e| format!("{e}"))?;
            fp.pred.predict(&mut s);
            if fp.tags {
                s.fill_tags();
            }
            Ok::<_, String>(observe(&s, with_cands))
        });
        let fresh = guard(|| {
            let mut f = Sentence::from_raw(txt.clone()).map_err(|e| format!("{e}"))?;
            fp.pred.predict(&mut f);
            if fp.tags {
                f.fill_tags();
            }
            Ok::<_, String>(observe(&f, with_cands))
        });
        ctx.eval(2);
        ctx.flag("histories_with_tagged_state_before_final_update", prev_n_tags_nonzero);
        ctx.flag("histories_with_other_predictor_before_final", other_predictor_used);
        ctx.flag("histories_with_failed_update_directly_before_final", last_failed_update);
        ctx.flag("final_predictor_with_tags", fp.tags);
        ctx.flag("final_predictor_storing_scores", with_cands);
        ctx.count("history_ops", ops.len() as u64);
        let detail = |extra: Vec<(&str, J)>| {
            let mut kv = vec![("history", history_json(ops.len())), ("model_a", model_json(&case_a.model)), ("model_b", model_json(&case_b.model))];
            kv.extend(extra);
            J::obj(kv)
        };
        match (reused, fresh) {
            (Ok(Ok(a)), Ok(Ok(b))) => {
                if a != b {
                    let what = if a.scores != b.scores {
                        "scores"
                    } else if a.labels != b.labels {
                        "boundaries"
                    } else if a.n_tags != b.n_tags {
                        "tag_count"
                    } else if a.tags != b.tags {
                        "tags"
                    } else if a.cands != b.cands {
                        "tag_scores"
                    } else {
                        "tokens_or_written_output"
                    };
                    ctx.violation(&format!("C08:reused_sentence_differs_from_fresh:{what}"), detail(vec![("reused", a.to_json()), ("fresh", b.to_json())]));
                }
            }
            (Err(p), _) => ctx.violation(&format!("C08:final_prediction_on_reused_sentence_panicked:{}", panic_site(&p)), detail(vec![("panic", J::s(&p))])),
            (_, Err(p)) => ctx.violation(&format!("C08:fresh_prediction_panicked:{}", panic_site(&p)), detail(vec![("panic", J::s(&p))])),
            (a, b) => ctx.violation("C08:update_raw_of_valid_text_failed", detail(vec![("reused_ok", J::B(matches!(a, Ok(Ok(_))))), ("fresh_ok", J::B(matches!(b, Ok(Ok(_)))))])),
        }
        ctx.nontrivial(fnv(format!("{:?}{}{}", ops, final_pred, txt).as_bytes()));
        if ctx.want_sample() {
            ctx.sample(J::obj(vec![("history", history_json(ops.len()))]));
        }
    }
}
