//! C15 (post-filters apply exactly their rule) and the normaliser half of C16.

use hashbrown::HashMap;
use unicode_segmentation::UnicodeSegmentation;
use vaporetto::CharacterType;
use vaporetto_rules::sentence_filters::{ConcatGraphemeClustersFilter, KyteaWsConstFilter, PatternMatchTagger, SplitLinebreaksFilter};
use vaporetto_rules::string_filters::KyteaFullwidthFilter;
use vaporetto_rules::{SentenceFilter, StringFilter};
use vgen::fmt::RefSentence;
use vgen::json::{clip, J};
use vgen::norm;
use vgen::oracle::ref_partition;
use vgen::rng::{case_seed, fnv, Rng};
use vgen::text::{self, ctype};

use crate::ctx::{guard, panic_site, Ctx};
use crate::sut::*;

pub const TYPES: [(CharacterType, u8, &str); 6] = [
    (CharacterType::Digit, 1, "D"),
    (CharacterType::Roman, 2, "R"),
    (CharacterType::Hiragana, 3, "H"),
    (CharacterType::Katakana, 4, "T"),
    (CharacterType::Kanji, 5, "K"),
    (CharacterType::Other, 6, "O"),
];

#[derive(Clone, Debug)]
pub enum FilterSpec {
    WsConst(usize),
    Linebreaks,
    Graphemes,
    Tagger(Vec<(String, Vec<Option<String>>)>),
}

impl FilterSpec {
    pub fn name(&self) -> String {
        match self {
            FilterSpec::WsConst(i) => format!("KyteaWsConstFilter({})", TYPES[*i].2),
            FilterSpec::Linebreaks => "SplitLinebreaksFilter".into(),
            FilterSpec::Graphemes => "ConcatGraphemeClustersFilter".into(),
            FilterSpec::Tagger(_) => "PatternMatchTagger".into(),
        }
    }
    pub fn build(&self) -> Box<dyn SentenceFilter> {
        match self {
            FilterSpec::WsConst(i) => Box::new(KyteaWsConstFilter::new(TYPES[*i].0)),
            FilterSpec::Linebreaks => Box::new(SplitLinebreaksFilter),
            FilterSpec::Graphemes => Box::new(ConcatGraphemeClustersFilter),
            FilterSpec::Tagger(rules) => {
                let mut m = HashMap::new();
                for (k, v) in rules {
                    m.insert(k.clone(), v.clone());
                }
                Box::new(PatternMatchTagger::new(m))
            }
        }
    }
}

/// Reference semantics of a filter on the abstract sentence (tags padded to `n_tags`).
pub fn ref_filter(spec: &FilterSpec, rs: &RefSentence, n_tags: usize) -> RefSentence {
    let mut out = rs.clone();
    for t in out.tags.iter_mut() {
        t.resize(n_tags, None);
    }
    let n = rs.chars.len();
    match spec {
        FilterSpec::WsConst(i) => {
            let t = TYPES[*i].1;
            for b in 0..n - 1 {
                if ctype(rs.chars[b]) == t && ctype(rs.chars[b + 1]) == t {
                    out.labels[b] = 0;
                }
            }
        }
        FilterSpec::Linebreaks => {
            let lb = |c: char| c == '\r' || c == '\n';
            for b in 0..n - 1 {
                if lb(rs.chars[b]) || lb(rs.chars[b + 1]) {
                    out.labels[b] = 1;
                }
            }
        }
        FilterSpec::Graphemes => {
            let s: String = rs.chars.iter().collect();
            let mut pos = 0;
            for g in s.graphemes(true) {
                let k = g.chars().count();
                for b in pos..pos + k - 1 {
                    out.labels[b] = 0;
                }
                pos += k;
            }
        }
        FilterSpec::Tagger(rules) => {
            for sp in ref_partition(n, &rs.labels) {
                let surf: String = rs.chars[sp.start..sp.end].iter().collect();
                if let Some((_, tags)) = rules.iter().find(|(k, _)| *k == surf) {
                    for j in 0..n_tags {
                        if out.tags[sp.end - 1][j].is_none() {
                            out.tags[sp.end - 1][j] = tags.get(j).cloned().flatten();
                        }
                    }
                }
            }
        }
    }
    out
}

const CLUSTERS: &[&str] = &[
    "👨\u{200d}👩\u{200d}👧", "🇯🇵", "🇯🇵🇺", "が\u{3099}", "e\u{0301}", "\r\n", "\n\r", "👍🏽", "각", "ᄀ\u{1161}\u{11a8}", "a\u{200d}", "\u{200d}👩",
    "क्\u{200d}ष", "\u{0600}a", "कि", "ก\u{0e33}", "\u{0903}", "ｶﾞ", "ﾊﾟ", "\u{0600}1", "\u{0600}あ", "1\u{fe0f}\u{20e3}",
];

fn c15_sentence(rng: &mut Rng) -> RefSentence {
    let asize = rng.urange(2, 6);
    let alpha = text::alphabet(rng, asize, text::Flavor::Any);
    let mut chars: Vec<char> = vec![];
    let target = match rng.below(12) {
        0 | 1 => 1,
        2 | 3 => 2,
        4 => rng.urange(41, 140),
        5 => rng.urange(60, 70),
        6 => *rng.pick(&[63usize, 64, 65, 127, 128, 129, 255, 256, 257, 300]),
        _ => rng.urange(3, 40),
    };
    while chars.len() < target {
        if rng.chance(1, 60) {
            // one very long extended grapheme cluster (dozens of combining marks / a long ZWJ chain)
            if rng.chance(1, 2) {
                chars.push('e');
                for _ in 0..rng.urange(30, 50) {
                    chars.push(*rng.pick(&['\u{0301}', '\u{0323}', '\u{3099}']));
                }
            } else {
                for i in 0..rng.urange(9, 14) {
                    if i > 0 {
                        chars.push('\u{200d}');
                    }
                    chars.push(*rng.pick(&['👨', '👩', '👧']));
                }
            }
        } else if rng.chance(1, 4) {
            chars.extend(rng.pick(CLUSTERS).chars());
        } else if rng.chance(1, 3) && !chars.is_empty() {
            let c = *chars.last().unwrap();
            chars.push(c);
        } else {
            chars.push(*rng.pick(&alpha));
        }
    }
    let n = chars.len();
    let uw = *rng.pick(&[0u32, 3, 10]);
    let mut labels = vgen::gen::gen_labels(rng, n - 1, uw);
    // rare: one token of 64 characters or more (rule tables keyed by surface must cope with long surfaces)
    if n >= 70 && rng.chance(1, 4) {
        let len = *rng.pick(&[63usize, 64, 65, 66]).min(&(n - 2));
        let st = rng.below(n - len);
        for l in labels[st..st + len - 1].iter_mut() {
            *l = 0;
        }
        if st > 0 {
            labels[st - 1] = 1;
        }
        if st + len - 1 < n - 1 {
            labels[st + len - 1] = 1;
        }
    }
    let n_tags = if rng.chance(1, 80) { rng.urange(31, 40) } else { rng.below(4) };
    let tags = (0..n).map(|_| (0..n_tags).map(|_| if rng.chance(1, 3) { Some(rng.pick(&["N", "V", "x y", ""]).to_string()) } else { None }).collect()).collect();
    RefSentence { chars, labels, tags }
}

fn c15_rules(rng: &mut Rng, rs: &RefSentence) -> Vec<(String, Vec<Option<String>>)> {
    let mut rules: Vec<(String, Vec<Option<String>>)> = vec![];
    let spans = ref_partition(rs.chars.len(), &rs.labels);
    // a token of 63 characters or more always gets a rule
    if let Some(sp) = spans.iter().find(|sp| sp.end - sp.start >= 63) {
        let surf: String = rs.chars[sp.start..sp.end].iter().collect();
        let k = if rs.max_tags() > 8 { 34 } else { 3 };
        rules.push((surf, (0..k).map(|_| Some("L".to_string())).collect()));
    }
    for _ in 0..rng.below(5) {
        let surf: String = if !spans.is_empty() && rng.chance(3, 4) {
            let sp = rng.pick(&spans);
            rs.chars[sp.start..sp.end].iter().collect()
        } else {
            "zz".into()
        };
        if rules.iter().any(|(k, _)| *k == surf) {
            continue;
        }
        let k = if rs.max_tags() > 8 { rng.urange(30, 42) } else { rng.below(5) };
        rules.push((surf, (0..k).map(|_| if rng.chance(3, 4) { Some(rng.pick(&["P", "Q", "r/s", ""]).to_string()) } else { None }).collect()));
    }
    rules
}

pub fn apply_and_check(ctx: &mut Ctx, prop: &str, spec: &FilterSpec, rs: &RefSentence) -> Option<RefSentence> {
    apply_and_check_with(ctx, prop, spec, rs, false)
}

thread_local! {
    /// tag prediction requested, model without tag models
    static TAGLESS: vaporetto::Predictor = {
        let m = vgen::mirror::ModelData {
            char_ngram_model: vec![vgen::mirror::NgramData { ngram: "b".into(), weights: vec![3, -3] }],
            bias: 1,
            char_window_size: 1,
            type_window_size: 1,
            ..Default::default()
        };
        new_predictor(&m, true).expect("tag-less predictor")
    };
}

/// A tagged sentence re-analysed by a tag-predicting predictor whose model has no tag model (`predict`,
/// `fill_tags`), then filtered: the state the filter sees is read first and is the basis of the expectation.
pub fn filter_after_tagless_refill(ctx: &mut Ctx, prop: &str, spec: &FilterSpec) {
    let r = guard(|| {
        TAGLESS.with(|p| {
            let prepare = || {
                let mut s = vaporetto::Sentence::from_tokenized("ab/X/Y c/Z d").unwrap();
                p.predict(&mut s);
                s.fill_tags();
                s
            };
            let before = observe(&prepare(), false);
            let f = spec.build();
            let mut s = prepare();
            f.filter(&mut s);
            (before, observe(&s, false))
        })
    });
    ctx.eval(1);
    match r {
        Ok((before, after)) => {
            let (Ok(rs0), Ok(got)) = (before.to_ref(), after.to_ref()) else {
                ctx.violation(&format!("{prop}:sentence_inconsistent_after_filter:{}", spec.name()), after.to_json());
                return;
            };
            let want = ref_filter(spec, &rs0, before.n_tags);
            if got.labels != want.labels || got.tags != want.tags || after.n_tags != before.n_tags || got.chars != want.chars {
                ctx.violation(
                    &format!("{prop}:filter_result_differs_from_rule_after_tagless_refill:{}", spec.name()),
                    J::obj(vec![("before", before.to_json()), ("after", after.to_json()), ("expected", ref_json(&want))]),
                );
            }
        }
        Err(p) => ctx.violation(&format!("{prop}:filter_panicked:{}:{}", spec.name(), panic_site(&p)), J::obj(vec![("panic", J::s(&p)), ("state", J::s("tagged sentence re-analysed by a predictor without tag models"))])),
    }
}

/// `via_fallback`: `rs` must be the documented fallback sentence (one space); the object is brought
/// into that state by a rejected update on a sentence that carried tags.
pub fn apply_and_check_with(ctx: &mut Ctx, prop: &str, spec: &FilterSpec, rs: &RefSentence, via_fallback: bool) -> Option<RefSentence> {
    let n_tags = rs.max_tags();
    let detail = |extra: Vec<(&str, J)>| {
        let mut kv = vec![("filter", J::s(spec.name())), ("sentence", ref_json(rs))];
        if let FilterSpec::Tagger(r) = spec {
            kv.push(("rules", J::s(format!("{:?}", r))));
        }
        kv.extend(extra);
        J::obj(kv)
    };
    let r = guard(|| {
        let f = spec.build();
        let mut s = if via_fallback {
            let mut s: vaporetto::Sentence<'static, 'static> = vaporetto::Sentence::from_tokenized("ab/X/Y c/Z").unwrap();
            let _ = s.update_raw(String::new());
            s
        } else {
            build_sentence(rs)
        };
        f.filter(&mut s);
        let once = observe(&s, false);
        f.filter(&mut s);
        let twice = observe(&s, false);
        (once, twice)
    });
    ctx.eval(2);
    let (once, twice) = match r {
        Ok(x) => x,
        Err(p) => {
            ctx.violation(&format!("{prop}:filter_panicked:{}:{}", spec.name(), panic_site(&p)), detail(vec![("panic", J::s(&p))]));
            return None;
        }
    };
    let want = ref_filter(spec, rs, n_tags);
    let got = match once.to_ref() {
        Ok(g) => g,
        Err(e) => {
            ctx.violation(&format!("{prop}:sentence_inconsistent_after_filter:{}", spec.name()), detail(vec![("error", J::s(&e))]));
            return None;
        }
    };
    if once.n_tags != n_tags {
        ctx.violation(&format!("{prop}:filter_changed_tag_count:{}", spec.name()), detail(vec![("observed", once.to_json())]));
        return None;
    }
    if got.chars != want.chars || once.types != rs.chars.iter().map(|&c| ctype(c)).collect::<Vec<u8>>() {
        ctx.violation(&format!("{prop}:filter_changed_text_or_types:{}", spec.name()), detail(vec![("observed", once.to_json())]));
        return None;
    }
    if got.labels != want.labels {
        let b = got.labels.iter().zip(&want.labels).position(|(a, b)| a != b).unwrap_or(0);
        ctx.violation(
            &format!("{prop}:boundaries_after_filter_differ_from_rule:{}", spec.name()),
            detail(vec![("boundary", J::i(b)), ("expected", J::ints(&want.labels)), ("observed", J::ints(&got.labels))]),
        );
        return None;
    }
    if got.tags != want.tags {
        ctx.violation(
            &format!("{prop}:tags_after_filter_differ_from_rule:{}", spec.name()),
            detail(vec![("expected", ref_json(&want)), ("observed", once.to_json())]),
        );
        return None;
    }
    if once != twice {
        ctx.violation(&format!("{prop}:filter_not_idempotent:{}", spec.name()), detail(vec![("once", once.to_json()), ("twice", twice.to_json())]));
        return None;
    }
    Some(want)
}

pub fn run_c15(ctx: &mut Ctx, from: u64, to: u64) {
    for k in from..to {
        ctx.begin_case(k);
        let mut rng = Rng::new(case_seed(ctx.seed, "C15", k));
        let mut rs = c15_sentence(&mut rng);
        if !ctx.tiny && k % 3000 == 777 {
            // tens of thousands of consecutive tokens that each touch an unannotated boundary
            let n = rng.urange(60_000, 70_000);
            let a: Vec<char> = rs.chars.iter().copied().filter(|c| *c != '\r' && *c != '\n').chain("ab".chars()).collect();
            rs = RefSentence { chars: (0..n).map(|_| *rng.pick(&a)).collect(), labels: (0..n - 1).map(|i| if i % 2 == 0 { 1 } else { 2 }).collect(), tags: vec![vec![None]; n] };
            let last = rs.labels.len() - 1;
            rs.labels[last] = 1;
            ctx.count("sentences_with_tens_of_thousands_of_skipped_tokens", 1);
        }
        if ctx.tiny && rs.chars.len() > 8 {
            rs.chars.truncate(8);
            rs.labels.truncate(7);
            rs.tags.truncate(8);
        }
        let s: String = rs.chars.iter().collect();
        let multi_cluster = s.graphemes(true).any(|g| g.chars().count() > 1);
        ctx.flag("sentences_with_multi_char_grapheme_cluster", multi_cluster);
        ctx.flag("sentences_with_cr_or_lf", rs.chars.iter().any(|&c| c == '\r' || c == '\n'));
        ctx.flag("sentences_with_unknown_boundary", rs.labels.contains(&2));
        ctx.flag("sentences_with_tags", rs.max_tags() > 0);
        ctx.flag("sentences_with_empty_string_tag", rs.tags.iter().flatten().any(|t| t.as_deref() == Some("")));
        ctx.flag("single_character_sentences", rs.chars.len() == 1);
        ctx.flag("sentences_with_rule_for_token_of_63_or_more_chars", ref_partition(rs.chars.len(), &rs.labels).iter().any(|sp| sp.end - sp.start >= 63));
        ctx.flag("sentences_with_cluster_longer_than_64_bytes", s.graphemes(true).any(|g| g.len() > 64));
        ctx.flag("sentences_with_more_than_32_tag_columns", rs.max_tags() > 32);
        let mut specs: Vec<FilterSpec> = (0..6).map(FilterSpec::WsConst).collect();
        specs.push(FilterSpec::Linebreaks);
        specs.push(FilterSpec::Graphemes);
        let rules = c15_rules(&mut rng, &rs);
        specs.push(FilterSpec::Tagger(rules));
        for spec in &specs {
            if let Some(after) = apply_and_check(ctx, "C15", spec, &rs) {
                let changed = after.labels != rs.labels || after.tags.iter().zip(&rs.tags).any(|(a, b)| vgen::fmt::trim(a) != vgen::fmt::trim(b));
                ctx.count(&format!("filter_changed_something:{}", spec.name()), u64::from(changed));
            }
        }
        if k % 50 == 3 {
            // the blank sentence left behind by a rejected update on a tagged object, through every filter
            let fb = RefSentence { chars: vec![' '], labels: vec![], tags: vec![vec![]] };
            let mut fspecs: Vec<FilterSpec> = (0..6).map(FilterSpec::WsConst).collect();
            fspecs.push(FilterSpec::Linebreaks);
            fspecs.push(FilterSpec::Graphemes);
            fspecs.push(FilterSpec::Tagger(vec![("x".to_string(), vec![Some("R".to_string())])]));
            for spec in &fspecs {
                apply_and_check_with(ctx, "C15", spec, &fb, true);
            }
            fspecs.push(FilterSpec::Tagger(vec![("c".to_string(), vec![Some("R".to_string()), None, Some("S".to_string())]), ("a".to_string(), vec![Some("Q".to_string())])]));
            for spec in &fspecs {
                filter_after_tagless_refill(ctx, "C15", spec);
            }
            ctx.count("fallback_sentences_filtered", 1);
        }
        ctx.flag("sentences_where_extended_and_legacy_clusters_differ", s.graphemes(true).count() != s.graphemes(false).count());
        ctx.nontrivial(fnv(format!("{:?}", rs).as_bytes()));
        if ctx.want_sample() {
            ctx.sample(J::obj(vec![("sentence", ref_json(&rs)), ("filters", J::A(specs.iter().map(|s| J::s(s.name())).collect()))]));
        }
    }
}

// ------------------------------------------------------------------------------------------ C16 (normaliser)

/// Exhaustive over all scalar values: case k covers code points [k*4096, (k+1)*4096).
pub fn run_c16n(ctx: &mut Ctx, from: u64, to: u64) {
    let f = KyteaFullwidthFilter;
    for k in from..to {
        ctx.begin_case(k);
        let lo = (k as u32) * 4096;
        let hi = (lo + 4096).min(0x11_0000);
        let mut n = 0u64;
        let mut changed = 0u64;
        for u in lo..hi {
            let Some(c) = char::from_u32(u) else { continue };
            n += 1;
            let mut buf = [0u8; 4];
            let s: &str = c.encode_utf8(&mut buf);
            let r = guard(|| {
                let once = f.filter(s);
                let twice = f.filter(once.as_str());
                (once, twice)
            });
            match r {
                Ok((once, twice)) => {
                    let want = norm::normalise_char(c);
                    let mut it = once.chars();
                    let first = it.next();
                    if first.is_none() || it.next().is_some() {
                        ctx.violation("C16:normaliser_changes_character_count", J::obj(vec![("code_point", J::i(u)), ("output", J::s(&once))]));
                    } else if first != Some(want) {
                        ctx.violation("C16:normaliser_output_differs_from_table", J::obj(vec![("code_point", J::i(u)), ("expected", J::s(want.to_string())), ("output", J::s(&once))]));
                    } else if twice != once {
                        ctx.violation("C16:normaliser_not_idempotent", J::obj(vec![("code_point", J::i(u)), ("once", J::s(&once)), ("twice", J::s(&twice))]));
                    }
                    if first != Some(c) {
                        changed += 1;
                    }
                }
                Err(p) => ctx.violation(&format!("C16:normaliser_panicked:{}", panic_site(&p)), J::obj(vec![("code_point", J::i(u)), ("panic", J::s(&p))])),
            }
        }
        ctx.eval(n);
        ctx.count("scalar_values_checked", n);
        ctx.count("scalar_values_changed_by_normaliser", changed);
        if n > 0 {
            ctx.nontrivial(fnv(&lo.to_le_bytes()));
        }
    }
}

/// Random strings: character count preserved and per-character behaviour.
pub fn run_c16s(ctx: &mut Ctx, from: u64, to: u64) {
    let f = KyteaFullwidthFilter;
    let keys: Vec<char> = norm::TABLE.iter().map(|p| p.0).collect();
    for k in from..to {
        ctx.begin_case(k);
        let mut rng = Rng::new(case_seed(ctx.seed, "C16s", k));
        let mut s = match rng.below(5) {
            4 => {
                // decomposed (NFD-style) kana: base + combining voiced / semi-voiced sound marks, half-width forms
                const KANA: &[char] = &['か', 'き', 'は', 'ひ', 'う', 'テ', 'ハ', 'ウ', 'ｶ', 'ﾊ', '\u{3099}', '\u{309a}', 'ﾞ', 'ﾟ', 'ー', 'a'];
                let n = rng.urange(2, 40);
                ctx.count("strings_with_decomposed_kana", 1);
                (0..n).map(|_| *rng.pick(KANA)).collect::<String>()
            }
            0 => {
                // long printable-ASCII strings (URLs, timestamps, identifiers): all table keys in context
                let n = rng.urange(20, 200);
                (0..n).map(|_| char::from(rng.urange(0x20, 0x7e) as u8)).collect::<String>()
            }
            1 => {
                let n = rng.urange(1, 80);
                (0..n).map(|_| *rng.pick(&keys)).collect::<String>()
            }
            _ => text::hostile_string(&mut rng, 30),
        };
        for _ in 0..rng.below(10) {
            s.push(*rng.pick(&keys));
        }
        if rng.chance(1, 4) {
            // the normalised form itself (idempotence on strings)
            s = norm::normalise(&s);
        }
        let r = guard(|| f.filter(s.as_str()));
        ctx.eval(1);
        match r {
            Ok(out) => {
                let want = norm::normalise(&s);
                let again = f.filter(out.as_str());
                if again != out {
                    ctx.violation("C16:normaliser_not_idempotent_on_string", J::obj(vec![("input", J::s(clip(&s, 120))), ("once", J::s(clip(&out, 120))), ("twice", J::s(clip(&again, 120)))]));
                }
                if out != want {
                    ctx.violation("C16:normalised_string_differs_from_per_character_table", J::obj(vec![("input", J::s(clip(&s, 240))), ("expected", J::s(clip(&want, 240))), ("output", J::s(clip(&out, 240)))]));
                }
                ctx.flag("strings_changed_by_normaliser", out != s);
            }
            Err(p) => ctx.violation(&format!("C16:normaliser_panicked:{}", panic_site(&p)), J::obj(vec![("input", J::s(clip(&s, 80))), ("panic", J::s(&p))])),
        }
        ctx.nontrivial(fnv(s.as_bytes()));
    }
}
