//! C07 (model file round trip, prefix / fault enumeration) and the library half of C19.

use std::io::{self, Read, Write};

use vaporetto::{Model, Predictor, Sentence, WordWeightRecord};
use vgen::gen::{gen_case, gen_weights, Case, GenOpts, TagMode, WClass};
use vgen::json::{clip, J};
use vgen::mirror::{self, ModelData};
use vgen::oracle::ref_scores;
use vgen::rng::{case_seed, fnv, Rng};
use vgen::text::to_string;

use crate::ctx::{guard, panic_site, Ctx};
use crate::sut::*;

/// Reader that returns data in short pieces, sometimes `Interrupted`, and optionally fails at byte k.
struct FaultyReader<'a> {
    data: &'a [u8],
    pos: usize,
    fail_at: Option<usize>,
    step: usize,
    tick: usize,
    interrupts: bool,
}

impl Read for FaultyReader<'_> {
    fn read(&mut self, buf: &mut [u8]) -> io::Result<usize> {
        self.tick += 1;
        if self.interrupts && self.tick % 3 == 0 {
            return Err(io::Error::new(io::ErrorKind::Interrupted, "interrupted"));
        }
        if let Some(k) = self.fail_at {
            if self.pos >= k {
                return Err(io::Error::new(io::ErrorKind::Other, "injected read fault"));
            }
        }
        let mut n = buf.len().min(self.step.max(1)).min(self.data.len() - self.pos);
        if let Some(k) = self.fail_at {
            n = n.min(k - self.pos);
        }
        buf[..n].copy_from_slice(&self.data[self.pos..self.pos + n]);
        self.pos += n;
        Ok(n)
    }
}

/// Writer that accepts short pieces and optionally fails once `fail_at` bytes were written.
struct FaultyWriter {
    out: Vec<u8>,
    fail_at: Option<usize>,
    step: usize,
}

impl Write for FaultyWriter {
    fn write(&mut self, buf: &[u8]) -> io::Result<usize> {
        if let Some(k) = self.fail_at {
            if self.out.len() >= k {
                return Err(io::Error::new(io::ErrorKind::Other, "injected write fault"));
            }
        }
        let mut n = buf.len().min(self.step.max(1));
        if let Some(k) = self.fail_at {
            n = n.min(k - self.out.len());
        }
        self.out.extend_from_slice(&buf[..n]);
        Ok(n)
    }
    fn flush(&mut self) -> io::Result<()> {
        Ok(())
    }
}

fn model_detail(bytes: &[u8], what: Vec<(&str, J)>) -> J {
    let mut kv = what;
    if bytes.len() <= 4096 {
        kv.push(("model_hex", J::hex(bytes)));
    } else {
        kv.push(("model_bytes", J::i(bytes.len())));
    }
    J::obj(kv)
}

/// All round-trip and fault checks for one serialised model. Returns false on the first violation.
pub fn c07_check_bytes(ctx: &mut Ctx, bytes: &[u8], texts: &[Vec<char>], mirror: Option<&ModelData>, rng: &mut Rng, full_enum: bool) -> bool {
    let n = bytes.len();
    macro_rules! viol {
        ($sig:expr, $kv:expr) => {{
            ctx.violation($sig, model_detail(bytes, $kv));
            return false;
        }};
    }
    // --- round trip through every entry point
    let r = guard(|| -> Result<(), (String, J)> {
        let (m, rest) = Model::read_slice(bytes).map_err(|e| ("C07:own_serialisation_rejected_by_read_slice".to_string(), J::s(format!("{e}"))))?;
        if !rest.is_empty() {
            return Err(("C07:read_slice_rest_not_empty".into(), J::i(rest.len())));
        }
        let v = m.to_vec().map_err(|e| ("C07:to_vec_failed".to_string(), J::s(format!("{e}"))))?;
        if v != bytes {
            return Err(("C07:reserialised_bytes_differ(to_vec)".into(), J::hex(&v[..v.len().min(2048)])));
        }
        let mut w = vec![];
        m.write(&mut w).map_err(|e| ("C07:write_failed".to_string(), J::s(format!("{e}"))))?;
        if w != bytes {
            return Err(("C07:reserialised_bytes_differ(write)".into(), J::hex(&w[..w.len().min(2048)])));
        }
        let mut fw = FaultyWriter { out: vec![], fail_at: None, step: 1 + n % 3 };
        m.write(&mut fw).map_err(|e| ("C07:write_to_short_writer_failed".to_string(), J::s(format!("{e}"))))?;
        if fw.out != bytes {
            return Err(("C07:short_writes_change_the_bytes".into(), J::i(fw.out.len())));
        }
        let m2 = Model::read(io::Cursor::new(bytes)).map_err(|e| ("C07:own_serialisation_rejected_by_read".to_string(), J::s(format!("{e}"))))?;
        if m2.to_vec().ok().as_deref() != Some(bytes) {
            return Err(("C07:model_from_reader_reserialises_differently".into(), J::Null));
        }
        for (step, intr) in [(1usize, false), (2, true), (3, true)] {
            let rd = FaultyReader { data: bytes, pos: 0, fail_at: None, step, tick: 0, interrupts: intr };
            let m3 = Model::read(rd).map_err(|e| ("C07:short_or_interrupted_reads_rejected".to_string(), J::s(format!("step={step} interrupted={intr}: {e}"))))?;
            if m3.to_vec().ok().as_deref() != Some(bytes) {
                return Err(("C07:short_reads_change_the_model".into(), J::i(step)));
            }
        }
        // serialise, edit, serialise again: the second image must describe the edited model
        if let Some(mir) = mirror {
            let mut m4 = Model::read_slice(bytes).map_err(|e| ("C07:own_serialisation_rejected_by_read_slice".to_string(), J::s(format!("{e}"))))?.0;
            let _ = m4.to_vec();
            let mut sink = vec![];
            let _ = m4.write(&mut sink);
            let mut edited = mir.clone();
            edited.dict_model.reverse();
            if let Some(first) = edited.dict_model.first_mut() {
                first.weights.iter_mut().for_each(|w| *w = if *w == 7 { 8 } else { 7 });
                first.comment.push('x');
            } else {
                edited.dict_model.push(mirror::WordWeightRecord { word: "新".into(), weights: vec![1, 2], comment: String::new() });
            }
            let recs: Vec<vaporetto::WordWeightRecord> = edited
                .dict_model
                .iter()
                .map(|r| vaporetto::WordWeightRecord::new(r.word.clone(), r.weights.clone(), r.comment.clone()))
                .collect::<Result<_, _>>()
                .map_err(|e| ("C07:dictionary_record_rejected".to_string(), J::s(format!("{e}"))))?;
            m4.replace_dictionary(recs);
            let after = m4.to_vec().map_err(|e| ("C07:to_vec_failed".to_string(), J::s(format!("{e}"))))?;
            let mut after_w = vec![];
            m4.write(&mut after_w).map_err(|e| ("C07:write_failed".to_string(), J::s(format!("{e}"))))?;
            let want = edited.to_bytes();
            if after != want || after_w != want {
                return Err((
                    "C07:image_written_after_an_edit_is_not_the_edited_model".into(),
                    J::obj(vec![("equals_image_before_edit", J::B(after == bytes || after_w == bytes)), ("edited_model", J::s(edited.summary()))]),
                ));
            }
        }
        Ok(())
    });
    ctx.eval(7);
    match r {
        Ok(Ok(())) => {}
        Ok(Err((sig, what))) => viol!(&sig, vec![("what", what)]),
        Err(p) => viol!(&format!("C07:round_trip_panicked:{}", panic_site(&p)), vec![("panic", J::s(&p))]),
    }
    // --- trailing bytes
    let trailing: Vec<u8> = (0..rng.urange(1, 40)).map(|_| rng.below(256) as u8).collect();
    let mut ext = bytes.to_vec();
    ext.extend_from_slice(&trailing);
    let r = guard(|| Model::read_slice(&ext).map(|(_, rest)| rest.to_vec()).map_err(|e| format!("{e}")));
    ctx.eval(1);
    match r {
        Ok(Ok(rest)) => {
            if rest != trailing {
                viol!("C07:read_slice_returns_wrong_remainder", vec![("trailing", J::hex(&trailing)), ("returned", J::hex(&rest))]);
            }
        }
        Ok(Err(e)) => viol!("C07:read_slice_rejects_model_followed_by_bytes", vec![("error", J::s(&e))]),
        Err(p) => viol!(&format!("C07:read_slice_panicked_with_trailing_bytes:{}", panic_site(&p)), vec![("panic", J::s(&p))]),
    }
    // --- predictions of the re-read model
    if let Some(mir) = mirror {
        let r = guard(|| -> Result<(), (String, J)> {
            let m2 = Model::read(io::Cursor::new(bytes)).map_err(|e| ("C07:own_serialisation_rejected_by_read".to_string(), J::s(format!("{e}"))))?;
            let p = Predictor::new(m2, false).map_err(|e| ("C07:reread_model_rejected_by_predictor".to_string(), J::s(format!("{e}"))))?;
            for t in texts.iter().take(3) {
                let refs = ref_scores(mir, t);
                if refs.iter().any(|&s| s.abs() > i64::from(i32::MAX)) {
                    continue;
                }
                let mut s = Sentence::from_raw(to_string(t)).unwrap();
                p.predict(&mut s);
                let got: Vec<i64> = s.boundary_scores().iter().map(|&x| i64::from(x)).collect();
                if got != refs {
                    return Err(("C07:reread_model_predicts_differently".into(), J::obj(vec![("text", J::s(clip(&to_string(t), 80))), ("expected", J::ints(&refs[..refs.len().min(40)])), ("observed", J::ints(&got[..got.len().min(40)]))])));
                }
            }
            Ok(())
        });
        ctx.eval(1);
        match r {
            Ok(Ok(())) => {}
            Ok(Err((sig, what))) => viol!(&sig, vec![("what", what)]),
            Err(p) => viol!(&format!("C07:predict_with_reread_model_panicked:{}", panic_site(&p)), vec![("panic", J::s(&p))]),
        }
    }
    // --- every proper prefix (crash points of the write) through both readers
    let prefixes: Vec<usize> = if full_enum {
        (0..n).collect()
    } else {
        let mut v: Vec<usize> = (0..n.min(64)).collect();
        v.extend((0..400).map(|_| rng.below(n)));
        v.push(n - 1);
        v
    };
    for &k in &prefixes {
        let r = guard(|| (Model::read_slice(&bytes[..k]).is_ok(), Model::read(io::Cursor::new(&bytes[..k])).is_ok()));
        ctx.eval(2);
        match r {
            Ok((false, false)) => {}
            Ok((a, b)) => viol!(
                "C07:proper_prefix_accepted",
                vec![("prefix_len", J::i(k)), ("full_len", J::i(n)), ("read_slice_ok", J::B(a)), ("read_ok", J::B(b))]
            ),
            Err(p) => {
                let which = if p.contains("model.rs") && k < mirror::MODEL_MAGIC.len() { "C07:read_slice_panicked_on_prefix".to_string() } else { format!("C07:reader_panicked_on_prefix:{}", panic_site(&p)) };
                viol!(&which, vec![("prefix_len", J::i(k)), ("full_len", J::i(n)), ("panic", J::s(&p))]);
            }
        }
    }
    ctx.count("prefixes_tried", prefixes.len() as u64);
    ctx.count("prefixes_shorter_than_header", prefixes.iter().filter(|&&k| k < 25).count() as u64);
    // --- reader failing at byte k, writer failing at byte k
    let fault_points: Vec<usize> = if full_enum { (0..n).collect() } else { prefixes.clone() };
    let model = match Model::read_slice(bytes) {
        Ok((m, _)) => m,
        Err(_) => return false,
    };
    for &k in &fault_points {
        let r = guard(|| {
            let rd = FaultyReader { data: bytes, pos: 0, fail_at: Some(k), step: 7, tick: 0, interrupts: false };
            let a = Model::read(rd).is_ok();
            let mut fw = FaultyWriter { out: vec![], fail_at: Some(k), step: 5 };
            let b = model.write(&mut fw).is_ok();
            (a, b)
        });
        ctx.eval(2);
        match r {
            Ok((false, false)) => {}
            Ok((a, b)) => viol!(
                "C07:io_fault_part_way_not_reported",
                vec![("fault_at_byte", J::i(k)), ("full_len", J::i(n)), ("read_ok", J::B(a)), ("write_ok", J::B(b))]
            ),
            Err(p) => viol!(&format!("C07:io_fault_caused_panic:{}", panic_site(&p)), vec![("fault_at_byte", J::i(k)), ("panic", J::s(&p))]),
        }
    }
    ctx.count("io_fault_points_tried", 2 * fault_points.len() as u64);
    // --- every single-byte change of the header
    for pos in 0..mirror::MODEL_MAGIC.len() {
        let vals: Vec<u8> = if full_enum { (0..=255u8).filter(|&v| v != bytes[pos]).collect() } else { vec![bytes[pos] ^ 1, bytes[pos].wrapping_add(1), 0, 255] };
        let mut b = bytes.to_vec();
        for v in vals {
            if v == bytes[pos] {
                continue;
            }
            b[pos] = v;
            let r = guard(|| (Model::read_slice(&b).is_ok(), Model::read(io::Cursor::new(&b)).is_ok()));
            ctx.eval(2);
            ctx.count("header_mutations_tried", 1);
            match r {
                Ok((false, false)) => {}
                Ok(_) => viol!("C07:foreign_header_accepted", vec![("position", J::i(pos)), ("value", J::i(v))]),
                Err(p) => viol!(&format!("C07:foreign_header_caused_panic:{}", panic_site(&p)), vec![("position", J::i(pos)), ("panic", J::s(&p))]),
            }
        }
    }
    true
}

pub fn run_c07(ctx: &mut Ctx, from: u64, to: u64) {
    for k in from..to {
        ctx.begin_case(k);
        let mut rng = Rng::new(case_seed(ctx.seed, "C07", k));
        if k == 0 {
            // the model shipped with the repository
            if let Ok(mut bytes) = std::fs::read("/repo/resources/model.bin") {
                // the file is stored uncompressed with the magic
                if let Ok((mir, used)) = ModelData::from_bytes(&bytes) {
                    bytes.truncate(used);
                    ctx.count("shipped_model_checked", 1);
                    let texts = vec!["まぁ社長は火星猫だ".chars().collect::<Vec<char>>()];
                    c07_check_bytes(ctx, &bytes, &texts, Some(&mir), &mut rng, false);
                    ctx.nontrivial(fnv(&bytes));
                }
            }
            continue;
        }
        if k == 1 {
            // a large model (several MB on disk, > 16 MiB of decoded containers): round trip only
            let mut big = ModelData { bias: 3, char_window_size: 1, type_window_size: 1, ..ModelData::default() };
            let cjk = |i: usize| char::from_u32(0x4E00 + (i % 20000) as u32).unwrap();
            for i in 0..1_000_000usize {
                let w: String = [cjk(i / 1000), cjk(7000 + i % 1000), cjk(9000 + (i * 7) % 911)].iter().collect();
                big.dict_model.push(mirror::WordWeightRecord { word: w, weights: vec![1, -2, 3, (i % 5) as i32], comment: String::new() });
            }
            for i in 0..380_000usize {
                let g: String = [cjk(i / 650), cjk(12000 + i % 650)].iter().collect();
                big.char_ngram_model.push(mirror::NgramData { ngram: g, weights: vec![(i % 7) as i32 - 3] });
            }
            let bytes = big.to_bytes();
            ctx.count("large_model_bytes", bytes.len() as u64);
            let r = guard(|| -> Result<(), (String, J)> {
                let (m, rest) = Model::read_slice(&bytes).map_err(|e| ("C07:large_model_rejected_by_read_slice".to_string(), J::s(format!("{e}"))))?;
                if !rest.is_empty() {
                    return Err(("C07:read_slice_rest_not_empty".into(), J::i(rest.len())));
                }
                if m.to_vec().ok().as_deref() != Some(&bytes[..]) {
                    return Err(("C07:large_model_reserialises_differently".into(), J::Null));
                }
                let m2 = Model::read(io::Cursor::new(&bytes)).map_err(|e| ("C07:large_model_rejected_by_read".to_string(), J::s(format!("{e}"))))?;
                let mut w = vec![];
                m2.write(&mut w).map_err(|e| ("C07:write_failed".to_string(), J::s(format!("{e}"))))?;
                if w != bytes {
                    return Err(("C07:large_model_reserialises_differently".into(), J::Null));
                }
                if Model::read_slice(&bytes[..bytes.len() - 1]).is_ok() || Model::read_slice(&bytes[..bytes.len() / 2]).is_ok() {
                    return Err(("C07:proper_prefix_accepted".into(), J::s("large model")));
                }
                Ok(())
            });
            ctx.eval(4);
            match r {
                Ok(Ok(())) => {
                    ctx.count("large_model_round_trips", 1);
                    ctx.nontrivial(fnv(&bytes[..4096]));
                }
                Ok(Err((sig, what))) => ctx.violation(&sig, J::obj(vec![("what", what), ("model", J::s(big.summary())), ("bytes", J::i(bytes.len()))])),
                Err(p) => ctx.violation(&format!("C07:round_trip_panicked:{}", panic_site(&p)), J::obj(vec![("panic", J::s(&p)), ("model", J::s(big.summary()))])),
            }
            continue;
        }
        if k == 2 || k % 500 == 499 {
            // one dictionary word of more than 32767 bytes but far fewer characters, occurring in the text
            let n = if k == 2 { 11_000 } else { rng.urange(10_923, 12_000) };
            let word: Vec<char> = (0..n).map(|i| char::from_u32(0x4E00 + ((i * 31 + k as usize) % 20000) as u32).unwrap()).collect();
            let mut weights = vec![0i32; n + 1];
            weights[0] = 9;
            weights[n] = 11;
            weights[n / 2] = -5;
            let m = ModelData {
                bias: -2,
                char_window_size: 2,
                type_window_size: 1,
                char_ngram_model: vec![mirror::NgramData { ngram: "あ".into(), weights: vec![1, 2, 3, 4] }],
                dict_model: vec![mirror::WordWeightRecord { word: word.iter().collect(), weights, comment: String::new() }],
                ..ModelData::default()
            };
            let mut text = vec!['あ', 'x'];
            text.extend(&word);
            text.extend(['y', 'あ']);
            let bytes = m.to_bytes();
            ctx.count("models_with_dictionary_word_longer_than_32767_bytes", 1);
            c07_check_bytes(ctx, &bytes, &[text], Some(&m), &mut rng, false);
            ctx.nontrivial(fnv(&bytes));
            continue;
        }
        let mut o = GenOpts::default();
        let full = k % 4 != 0;
        if full {
            // small enough for complete enumeration of prefixes and fault points
            o.max_window = 8;
            o.max_text_len = 24;
            o.max_patterns = 6;
        } else {
            o.max_text_len = 80;
        }
        o.tags = TagMode::Maybe;
        let mut case = gen_case(&mut rng, &o);
        if !case.model.dict_model.is_empty() && rng.chance(1, 8) {
            // the same word in two adjacent dictionary rows (both rows count; replace_dictionary allows it)
            let i = rng.below(case.model.dict_model.len());
            let mut dup = case.model.dict_model[i].clone();
            if rng.chance(1, 2) {
                dup.weights.iter_mut().for_each(|w| *w = w.wrapping_neg().clamp(-32767, 32767));
            }
            case.model.dict_model.insert(i + 1, dup);
            ctx.count("models_with_repeated_dictionary_word", 1);
        }
        let bytes = case.model.to_bytes();
        ctx.flag("models_with_tag_models", !case.model.tag_models.is_empty());
        ctx.flag("models_fully_enumerated", full);
        ctx.count("model_bytes_total", bytes.len() as u64);
        c07_check_bytes(ctx, &bytes, &case.texts, Some(&case.model), &mut rng, full);
        ctx.nontrivial(fnv(&bytes));
        if ctx.want_sample() {
            ctx.sample(J::obj(vec![("model", J::s(case.model.summary())), ("bytes", J::i(bytes.len())), ("every_prefix_and_fault_point_enumerated", J::B(full))]));
        }
    }
}

// ------------------------------------------------------------------------------------------ C19 (library)

fn gen_dict(rng: &mut Rng, case: &Case) -> Vec<mirror::WordWeightRecord> {
    let mut words: Vec<String> = vec![];
    let n = rng.below(7);
    for _ in 0..n {
        let t = rng.pick(&case.texts);
        let cap = if rng.chance(1, 3) { 14 } else { 6 };
        let len = rng.urange(1, t.len().min(cap));
        let s = rng.below(t.len() - len + 1);
        let w: String = t[s..s + len].iter().collect();
        if !words.contains(&w) {
            words.push(w);
        }
    }
    // sometimes keep some of the old words
    for d in &case.model.dict_model {
        if rng.chance(1, 3) && !words.contains(&d.word) {
            words.push(d.word.clone());
        }
    }
    let class = *rng.pick(&[WClass::Tiny, WClass::Full]);
    let mut recs: Vec<mirror::WordWeightRecord> = words
        .into_iter()
        .map(|w| {
            let l = w.chars().count() + 1;
            mirror::WordWeightRecord { word: w, weights: gen_weights(rng, l, class), comment: if rng.chance(1, 3) { "new, \"entry\"".into() } else { String::new() } }
        })
        .collect();
    // a record repeated verbatim right after itself (both count)
    if !recs.is_empty() && rng.chance(1, 10) {
        let i = rng.below(recs.len());
        let dup = recs[i].clone();
        recs.insert(i + 1, dup);
    }
    recs
}

/// A dictionary of one million records installed with `replace_dictionary`: the edited model must still be
/// writable and readable (it is about 25 MB on disk), and a dump of the accessors must reproduce it.
fn big_dictionary_edit(ctx: &mut Ctx) {
    let cjk = |i: usize| char::from_u32(0x4E00 + (i % 20000) as u32).unwrap();
    let base = ModelData {
        char_ngram_model: vec![mirror::NgramData { ngram: "a".into(), weights: vec![1, -1] }],
        bias: 2,
        char_window_size: 1,
        type_window_size: 1,
        ..ModelData::default()
    };
    let n = 1_000_000usize;
    let r = guard(|| -> Result<usize, String> {
        let mut m = model_from(&base)?;
        let recs: Vec<WordWeightRecord> = (0..n)
            .map(|i| {
                let w: String = [cjk(i / 1000), cjk(2000 + i % 1000), cjk(5000 + (i * 7) % 997)].iter().collect();
                WordWeightRecord::new(w, vec![1, (i % 9) as i32 - 4, 0, 2], String::new())
            })
            .collect::<Result<_, _>>()
            .map_err(|e| format!("record rejected: {e}"))?;
        m.replace_dictionary(recs);
        let bytes = m.to_vec().map_err(|e| format!("to_vec: {e}"))?;
        let (again, rest) = Model::read_slice(&bytes).map_err(|e| format!("the edited model cannot be read back ({} bytes): {e}", bytes.len()))?;
        if !rest.is_empty() {
            return Err("read_slice left bytes".into());
        }
        let m2 = Model::read(io::Cursor::new(&bytes)).map_err(|e| format!("the edited model cannot be read back through a reader: {e}"))?;
        if again.dictionary().len() != n || m2.dictionary().len() != n {
            return Err(format!("dictionary has {} / {} records after the round trip, {n} were installed", again.dictionary().len(), m2.dictionary().len()));
        }
        // dump through the accessors and re-install: byte-for-byte the same model
        let mut m3 = model_from(&base)?;
        let dump: Vec<WordWeightRecord> = again
            .dictionary()
            .iter()
            .map(|r| WordWeightRecord::new(r.get_word().to_string(), r.get_weights().to_vec(), r.get_comment().to_string()))
            .collect::<Result<_, _>>()
            .map_err(|e| format!("dumped record rejected: {e}"))?;
        m3.replace_dictionary(dump);
        if m3.to_vec().map_err(|e| format!("to_vec: {e}"))? != bytes {
            return Err("dump of the accessors does not reproduce the edited model".into());
        }
        Ok(bytes.len())
    });
    ctx.eval(1);
    match r {
        Ok(Ok(len)) => {
            ctx.count("edits_installing_a_million_records", 1);
            ctx.count("large_edited_model_bytes", len as u64);
            ctx.nontrivial(len as u64);
        }
        Ok(Err(e)) => ctx.violation("C19:large_dictionary_edit_does_not_round_trip", J::obj(vec![("what", J::s(&e)), ("records", J::i(n))])),
        Err(p) => ctx.violation(&format!("C19:library_panicked:{}", panic_site(&p)), J::obj(vec![("panic", J::s(&p)), ("what", J::s("dictionary of one million records"))])),
    }
}

pub fn run_c19lib(ctx: &mut Ctx, from: u64, to: u64) {
    for k in from..to {
        ctx.begin_case(k);
        if k == 3 {
            big_dictionary_edit(ctx);
            continue;
        }
        let mut rng = Rng::new(case_seed(ctx.seed, "C19lib", k));
        let mut o = GenOpts::default();
        o.max_text_len = 80;
        o.tags = TagMode::Maybe;
        let mut case = gen_case(&mut rng, &o);
        let mut newd = gen_dict(&mut rng, &case);
        if k % 40 == 7 {
            // the edit adds (or removes) an entry that cancels its own suffix inside a longer entry
            let (c, s1_at) = vgen::gen::cancelling_case(&mut rng);
            case = c;
            newd = case.model.dict_model.clone();
            if rng.chance(1, 2) {
                case.model.dict_model.remove(s1_at);
            } else {
                newd.remove(s1_at);
            }
            ctx.count("edits_adding_or_removing_entry_that_cancels_its_suffix", 1);
        }
        let detail = |extra: Vec<(&str, J)>| {
            let mut kv = vec![("model", model_json(&case.model)), ("new_dictionary", J::A(newd.iter().map(|d| J::obj(vec![("word", J::s(&d.word)), ("weights", J::ints(&d.weights))])).collect()))];
            kv.extend(extra);
            J::obj(kv)
        };
        let r = guard(|| -> Result<(u64, u64), (String, J)> {
            let mut m = model_from(&case.model).map_err(|e| ("C19:model_rejected".to_string(), J::s(&e)))?;
            // accessor reflects the old dictionary
            let old: Vec<(String, Vec<i32>, String)> = m.dictionary().iter().map(|r| (r.get_word().to_string(), r.get_weights().to_vec(), r.get_comment().to_string())).collect();
            let want_old: Vec<(String, Vec<i32>, String)> = case.model.dict_model.iter().map(|d| (d.word.clone(), d.weights.clone(), d.comment.clone())).collect();
            if old != want_old {
                return Err(("C19:dictionary_accessor_differs_from_model".into(), J::s(format!("{:?}", old))));
            }
            // record constructor rejects wrong weight counts
            for d in &newd {
                let mut w = d.weights.clone();
                w.push(1);
                if WordWeightRecord::new(d.word.clone(), w, String::new()).is_ok() {
                    return Err(("C19:record_with_extra_weight_accepted".into(), J::s(&d.word)));
                }
                let mut w = d.weights.clone();
                w.pop();
                if WordWeightRecord::new(d.word.clone(), w, String::new()).is_ok() {
                    return Err(("C19:record_with_missing_weight_accepted".into(), J::s(&d.word)));
                }
            }
            let recs: Vec<WordWeightRecord> = newd
                .iter()
                .map(|d| WordWeightRecord::new(d.word.clone(), d.weights.clone(), d.comment.clone()))
                .collect::<Result<_, _>>()
                .map_err(|e| ("C19:valid_record_rejected".to_string(), J::s(format!("{e}"))))?;
            let p_old = Predictor::new(model_from(&case.model).unwrap(), false).map_err(|e| ("C19:predictor_rejected".to_string(), J::s(format!("{e}"))))?;
            m.replace_dictionary(recs);
            // nothing else changes
            let after = m.to_vec().map_err(|e| ("C19:to_vec_failed".to_string(), J::s(format!("{e}"))))?;
            let (mir2, _) = ModelData::from_bytes(&after).map_err(|e| ("C19:mirror_cannot_read_edited_model".to_string(), J::s(&e)))?;
            let mut want = case.model.clone();
            want.dict_model = newd.clone();
            if mir2 != want {
                return Err(("C19:replace_dictionary_changed_something_else".into(), J::s(format!("{} vs {}", mir2.summary(), want.summary()))));
            }
            let p_new = Predictor::new(m, false).map_err(|e| ("C19:edited_model_rejected_by_predictor".to_string(), J::s(format!("{e}"))))?;
            // score difference = contribution(new dict) - contribution(old dict)
            let only = |d: &Vec<mirror::WordWeightRecord>| ModelData { dict_model: d.clone(), char_window_size: 1, type_window_size: 1, ..ModelData::default() };
            let (mut occ_old, mut occ_new) = (0u64, 0u64);
            for t in &case.texts {
                let c_old = ref_scores(&only(&case.model.dict_model), t);
                let c_new = ref_scores(&only(&newd), t);
                occ_old += c_old.iter().filter(|&&x| x != 0).count() as u64;
                occ_new += c_new.iter().filter(|&&x| x != 0).count() as u64;
                let full_new = ref_scores(&want, t);
                if full_new.iter().any(|&s| s.abs() > i64::from(i32::MAX)) {
                    continue;
                }
                let mut s1 = Sentence::from_raw(to_string(t)).unwrap();
                p_old.predict(&mut s1);
                let before: Vec<i32> = s1.boundary_scores().to_vec();
                // half of the texts: the very same sentence object is analysed before and after the edit
                let same_object = t.len() % 2 == 0;
                let after: Vec<i32> = if same_object {
                    p_new.predict(&mut s1);
                    s1.boundary_scores().to_vec()
                } else {
                    let mut s2 = Sentence::from_raw(to_string(t)).unwrap();
                    p_new.predict(&mut s2);
                    s2.boundary_scores().to_vec()
                };
                if after.len() != t.len() - 1 || before.len() != t.len() - 1 {
                    return Err(("C19:score_vector_length".into(), J::i(after.len())));
                }
                for b in 0..t.len() - 1 {
                    let diff = i64::from(after[b]) - i64::from(before[b]);
                    if diff != c_new[b] - c_old[b] {
                        return Err((
                            "C19:score_change_differs_from_dictionary_difference".into(),
                            J::obj(vec![("text", J::s(clip(&to_string(t), 80))), ("boundary", J::i(b)), ("observed_change", J::i(diff)), ("expected_change", J::i(c_new[b] - c_old[b]))]),
                        ));
                    }
                }
            }
            Ok((occ_old, occ_new))
        });
        ctx.eval(1);
        match r {
            Ok(Ok((a, b))) => {
                ctx.count("boundaries_touched_by_old_dictionary", a);
                ctx.count("boundaries_touched_by_new_dictionary", b);
                ctx.flag("edits_to_empty_dictionary", newd.is_empty());
                ctx.flag("new_dictionaries_with_word_of_8_or_more_chars", newd.iter().any(|d| d.word.chars().count() >= 8));
                ctx.flag("new_dictionaries_with_repeated_record", newd.windows(2).any(|w| w[0] == w[1]));
                ctx.flag("edits_from_empty_dictionary", case.model.dict_model.is_empty());
                if a + b > 0 {
                    ctx.nontrivial(crate::p_score::case_digest(&case) ^ fnv(format!("{:?}", newd).as_bytes()));
                }
            }
            Ok(Err((sig, what))) => ctx.violation(&sig, detail(vec![("what", what)])),
            Err(p) => ctx.violation(&format!("C19:library_panicked:{}", panic_site(&p)), detail(vec![("panic", J::s(&p))])),
        }
        if ctx.want_sample() {
            ctx.sample(J::obj(vec![
                ("model", J::s(case.model.summary())),
                ("old_words", J::A(case.model.dict_model.iter().map(|d| J::s(&d.word)).collect())),
                ("new_words", J::A(newd.iter().map(|d| J::s(&d.word)).collect())),
            ]));
        }
    }
}
