//! Minimal JSON writer for the event log (no dependency).

use std::fmt::Write;

#[derive(Clone, Debug)]
pub enum J {
    Null,
    B(bool),
    I(i64),
    S(String),
    A(Vec<J>),
    O(Vec<(String, J)>),
}

impl J {
    pub fn s(x: impl AsRef<str>) -> J {
        J::S(x.as_ref().to_string())
    }
    pub fn i(x: impl TryInto<i64>) -> J {
        J::I(x.try_into().ok().unwrap_or(i64::MAX))
    }
    pub fn arr<T, F: Fn(&T) -> J>(xs: &[T], f: F) -> J {
        J::A(xs.iter().map(f).collect())
    }
    pub fn ints<T: Copy + TryInto<i64>>(xs: &[T]) -> J {
        J::A(xs.iter().map(|&x| J::i(x)).collect())
    }
    pub fn strs<T: AsRef<str>>(xs: &[T]) -> J {
        J::A(xs.iter().map(|x| J::s(x.as_ref())).collect())
    }
    pub fn hex(bytes: &[u8]) -> J {
        let mut s = String::with_capacity(bytes.len() * 2);
        for b in bytes {
            let _ = write!(s, "{b:02x}");
        }
        J::S(s)
    }
    pub fn obj(kv: Vec<(&str, J)>) -> J {
        J::O(kv.into_iter().map(|(k, v)| (k.to_string(), v)).collect())
    }
    pub fn get(&self, key: &str) -> Option<&J> {
        match self {
            J::O(kv) => kv.iter().find(|(k, _)| k == key).map(|(_, v)| v),
            _ => None,
        }
    }
    pub fn as_str(&self) -> Option<&str> {
        match self {
            J::S(s) => Some(s),
            _ => None,
        }
    }
    pub fn write(&self, out: &mut String) {
        match self {
            J::Null => out.push_str("null"),
            J::B(b) => out.push_str(if *b { "true" } else { "false" }),
            J::I(i) => {
                let _ = write!(out, "{i}");
            }
            J::S(s) => write_str(s, out),
            J::A(xs) => {
                out.push('[');
                for (i, x) in xs.iter().enumerate() {
                    if i != 0 {
                        out.push(',');
                    }
                    x.write(out);
                }
                out.push(']');
            }
            J::O(kv) => {
                out.push('{');
                for (i, (k, v)) in kv.iter().enumerate() {
                    if i != 0 {
                        out.push(',');
                    }
                    write_str(k, out);
                    out.push(':');
                    v.write(out);
                }
                out.push('}');
            }
        }
    }
    pub fn to_line(&self) -> String {
        let mut s = String::new();
        self.write(&mut s);
        s
    }
}

fn write_str(s: &str, out: &mut String) {
    out.push('"');
    for c in s.chars() {
        match c {
            '"' => out.push_str("\\\""),
            '\\' => out.push_str("\\\\"),
            '\n' => out.push_str("\\n"),
            '\r' => out.push_str("\\r"),
            '\t' => out.push_str("\\t"),
            c if (c as u32) < 0x20 || c == '\u{7f}' => {
                let _ = write!(out, "\\u{:04x}", c as u32);
            }
            c => out.push(c),
        }
    }
    out.push('"');
}

/// Truncates long strings for samples/witnesses (character-wise).
pub fn clip(s: &str, n: usize) -> String {
    if s.chars().count() <= n {
        s.to_string()
    } else {
        let mut t: String = s.chars().take(n).collect();
        t.push('…');
        t
    }
}
