// placeholder
