//! Writer of the KyTea binary model layout (as the converter's reader expects it) together with
//! the ground truth the converted model must contain.

use std::collections::BTreeMap;

use crate::mirror::{ModelData, NgramData, WordWeightRecord};
use crate::rng::Rng;
use crate::text;

#[derive(Clone, Debug)]
pub struct KyteaSpec {
    pub char_w: u8,
    pub type_w: u8,
    pub dict_n: u8,
    pub n_tags: u32,
    pub char_map: Vec<char>,
    pub char_ngrams: Vec<(Vec<char>, Vec<i16>)>,
    /// type n-grams over the letters D R H T K O (and possibly U+0004, which must be skipped)
    pub type_ngrams: Vec<(Vec<char>, Vec<i16>)>,
    pub bias: i16,
    pub n_dicts: u8,
    pub dict_vec: Vec<i16>,
    pub words: Vec<(Vec<char>, u8)>,
    /// extra weights stored after the ones the window needs (must be ignored)
    pub extra_weights: usize,
    pub with_subword_dict: bool,
    pub with_self_dict: bool,
    pub trailing: Vec<u8>,
    /// an n-gram section without n-grams is written as a present trie with the root state only
    /// (instead of an absent one)
    pub empty_tries_present: bool,
    #[doc(hidden)]
    pub in_ngram_section: std::cell::Cell<bool>,
}

struct Out(Vec<u8>);

impl Out {
    fn u8(&mut self, x: u8) {
        self.0.push(x);
    }
    fn u16(&mut self, x: u16) {
        self.0.extend_from_slice(&x.to_le_bytes());
    }
    fn i16(&mut self, x: i16) {
        self.0.extend_from_slice(&x.to_le_bytes());
    }
    fn u32(&mut self, x: u32) {
        self.0.extend_from_slice(&x.to_le_bytes());
    }
    fn i32(&mut self, x: i32) {
        self.0.extend_from_slice(&x.to_le_bytes());
    }
    fn f64(&mut self, x: f64) {
        self.0.extend_from_slice(&x.to_le_bytes());
    }
}

struct Trie {
    /// per state: gotos (char -> state), entry index if a word ends here
    gotos: Vec<BTreeMap<char, usize>>,
    entry: Vec<Option<usize>>,
}

impl Trie {
    fn build(words: &[Vec<char>]) -> Trie {
        let mut t = Trie { gotos: vec![BTreeMap::new()], entry: vec![None] };
        for (i, w) in words.iter().enumerate() {
            let mut s = 0;
            for &c in w {
                let next = match t.gotos[s].get(&c) {
                    Some(&n) => n,
                    None => {
                        t.gotos.push(BTreeMap::new());
                        t.entry.push(None);
                        let n = t.gotos.len() - 1;
                        t.gotos[s].insert(c, n);
                        n
                    }
                };
                s = next;
            }
            t.entry[s] = Some(i);
        }
        t
    }
}

impl KyteaSpec {
    fn cidx(&self, c: char) -> u16 {
        (self.char_map.iter().position(|&x| x == c).expect("char in map") + 1) as u16
    }

    fn string(&self, o: &mut Out, s: &[char]) {
        o.u32(s.len() as u32);
        for &c in s {
            o.u16(self.cidx(c));
        }
    }

    /// Emits a Dictionary<T>; `emit_entry` writes entry i. States carry hostile-but-legal details:
    /// gotos in reverse order, interior states with suffix outputs and is_branch = false.
    fn dictionary(&self, o: &mut Out, n_dicts: u8, words: &[Vec<char>], emit_entry: &mut dyn FnMut(&mut Out, usize)) {
        o.u8(n_dicts);
        if words.is_empty() {
            if self.empty_tries_present && n_dicts == 0 && self.in_ngram_section.get() {
                o.u32(1); // one state: the root
                o.u32(0); // failure link
                o.u32(0); // no gotos
                o.u32(0); // no outputs
                o.u8(0);
                o.u32(0); // no entries
            } else {
                o.u32(0);
            }
            return;
        }
        let t = Trie::build(words);
        o.u32(t.gotos.len() as u32);
        for s in 0..t.gotos.len() {
            o.u32(0); // failure link (unused by the converter)
            o.u32(t.gotos[s].len() as u32);
            for (&c, &n) in t.gotos[s].iter().rev() {
                o.u16(self.cidx(c));
                o.u32(n as u32);
            }
            match t.entry[s] {
                Some(e) => {
                    o.u32(2);
                    o.u32(e as u32);
                    o.u32(0); // a suffix output after the own one
                    o.u8(1);
                }
                None => {
                    if s != 0 && s % 2 == 0 {
                        // outputs inherited from suffixes on a state that is not a word end
                        o.u32(1);
                        o.u32(0);
                    } else {
                        o.u32(0);
                    }
                    o.u8(0);
                }
            }
        }
        o.u32(words.len() as u32);
        for i in 0..words.len() {
            emit_entry(o, i);
        }
    }

    fn linear_model_none(&self, o: &mut Out) {
        o.u32(0);
    }

    fn linear_model_inactive(&self, o: &mut Out) {
        o.u32(2);
        o.u8(1);
        o.i32(1);
        o.i32(-1);
        o.u8(1);
        o.f64(0.5);
        o.u8(0); // feature lookup inactive
    }

    pub fn emit(&self) -> Vec<u8> {
        let mut o = Out(vec![]);
        o.0.extend_from_slice(b"KyTea 0.4.0 B utf8\n");
        o.u8(1);
        o.u8(u8::from(self.n_tags > 0));
        o.u32(self.n_tags);
        o.u8(self.char_w);
        o.u8(3);
        o.u8(self.type_w);
        o.u8(3);
        o.u8(self.dict_n);
        o.u8(1);
        o.f64(f64::INFINITY);
        o.u8(5);
        let cm: String = self.char_map.iter().collect();
        o.0.extend_from_slice(cm.as_bytes());
        o.u8(0);
        // word segmentation model
        o.u32(2);
        o.u8(1);
        o.i32(1);
        o.i32(-1);
        o.u8(1);
        o.f64(0.01);
        o.u8(1); // feature lookup active
        let cw: Vec<Vec<char>> = self.char_ngrams.iter().map(|x| x.0.clone()).collect();
        self.in_ngram_section.set(true);
        self.dictionary(&mut o, 0, &cw, &mut |o, i| {
            let w = &self.char_ngrams[i].1;
            o.u32((w.len() + self.extra_weights) as u32);
            for &x in w {
                o.i16(x);
            }
            for k in 0..self.extra_weights {
                o.i16(1000 + k as i16);
            }
        });
        let tw: Vec<Vec<char>> = self.type_ngrams.iter().map(|x| x.0.clone()).collect();
        self.dictionary(&mut o, 0, &tw, &mut |o, i| {
            let w = &self.type_ngrams[i].1;
            o.u32((w.len() + self.extra_weights) as u32);
            for &x in w {
                o.i16(x);
            }
            for k in 0..self.extra_weights {
                o.i16(2000 + k as i16);
            }
        });
        self.in_ngram_section.set(false);
        if self.with_self_dict && !cw.is_empty() {
            self.dictionary(&mut o, 0, &cw[..1], &mut |o, _| {
                o.u32(1);
                o.i16(7);
            });
        } else {
            self.dictionary(&mut o, 0, &[], &mut |_, _| {});
        }
        o.u32(self.dict_vec.len() as u32);
        for &x in &self.dict_vec {
            o.i16(x);
        }
        o.u32(1);
        o.i16(self.bias);
        o.u32(2); // tag_dict_vec
        o.i16(11);
        o.i16(12);
        o.u32(1); // tag_unk_vec
        o.i16(13);
        // global tags
        let tagname: Vec<char> = vec![self.char_map[0]];
        for t in 0..self.n_tags {
            o.u32(2);
            self.string(&mut o, &tagname);
            self.string(&mut o, &[]);
            if t % 2 == 0 {
                self.linear_model_none(&mut o);
            } else {
                self.linear_model_inactive(&mut o);
            }
        }
        // word dictionary
        let ww: Vec<Vec<char>> = self.words.iter().map(|x| x.0.clone()).collect();
        self.dictionary(&mut o, self.n_dicts, &ww, &mut |o, i| {
            self.string(o, &self.words[i].0);
            for t in 0..self.n_tags {
                let n = (i as u32 + t) % 3;
                o.u32(n);
                for k in 0..n {
                    self.string(o, &tagname);
                    o.u8(k as u8);
                }
            }
            o.u8(self.words[i].1);
            for t in 0..self.n_tags {
                if (i as u32 + t) % 2 == 0 {
                    self.linear_model_none(o);
                } else {
                    self.linear_model_inactive(o);
                }
            }
        });
        // sub-word dictionary
        if self.with_subword_dict && !ww.is_empty() {
            self.dictionary(&mut o, 1, &ww[..1], &mut |o, _| {
                self.string(o, &self.words[0].0);
                for _ in 0..self.n_tags {
                    o.u32(1);
                    self.string(o, &tagname);
                    o.f64(0.25);
                }
            });
        } else {
            self.dictionary(&mut o, 0, &[], &mut |_, _| {});
        }
        o.0.extend_from_slice(&self.trailing);
        o.0
    }

    /// Number of bytes the reader consumes (everything but the trailing bytes).
    pub fn consumed_len(&self) -> usize {
        self.emit().len() - self.trailing.len()
    }

    /// The model the converter must produce.
    pub fn expected(&self) -> ModelData {
        let mut char_ngram_model: Vec<NgramData<String>> = self
            .char_ngrams
            .iter()
            .map(|(g, w)| NgramData { ngram: g.iter().collect(), weights: w.iter().map(|&x| i32::from(x)).collect() })
            .collect();
        char_ngram_model.sort_by(|a, b| a.ngram.cmp(&b.ngram));
        let code = |c: char| match c {
            'D' => 1u8,
            'R' => 2,
            'H' => 3,
            'T' => 4,
            'K' => 5,
            'O' => 6,
            _ => 0,
        };
        let mut type_ngram_model: Vec<NgramData<Vec<u8>>> = self
            .type_ngrams
            .iter()
            .filter(|(g, _)| !g.contains(&'\u{4}'))
            .map(|(g, w)| NgramData { ngram: g.iter().map(|&c| code(c)).collect(), weights: w.iter().map(|&x| i32::from(x)).collect() })
            .collect();
        type_ngram_model.sort_by(|a, b| a.ngram.cmp(&b.ngram));
        let mut dict_model: Vec<WordWeightRecord> = self
            .words
            .iter()
            .map(|(w, mask)| {
                let idx = w.len().min(usize::from(self.dict_n)) - 1;
                let (mut l, mut i, mut r) = (0i32, 0i32, 0i32);
                for j in 0..usize::from(self.n_dicts) {
                    if (mask >> j) & 1 == 1 {
                        let off = 3 * usize::from(self.dict_n) * j + 3 * idx;
                        l += i32::from(self.dict_vec[off]);
                        i += i32::from(self.dict_vec[off + 1]);
                        r += i32::from(self.dict_vec[off + 2]);
                    }
                }
                let mut weights = vec![i; w.len() + 1];
                weights[0] = l;
                *weights.last_mut().unwrap() = r;
                WordWeightRecord { word: w.iter().collect(), weights, comment: String::new() }
            })
            .collect();
        dict_model.sort_by(|a, b| a.word.cmp(&b.word));
        ModelData {
            char_ngram_model,
            type_ngram_model,
            dict_model,
            bias: i32::from(self.bias),
            char_window_size: self.char_w,
            type_window_size: self.type_w,
            tag_models: vec![],
        }
    }
}

/// Sorted copy of a converted model (the converter's entry order follows its trie walk).
pub fn normalised(m: &ModelData) -> ModelData {
    let mut m = m.clone();
    m.char_ngram_model.sort_by(|a, b| a.ngram.cmp(&b.ngram));
    m.type_ngram_model.sort_by(|a, b| a.ngram.cmp(&b.ngram));
    m.dict_model.sort_by(|a, b| a.word.cmp(&b.word));
    m
}

fn w16(rng: &mut Rng) -> i16 {
    match rng.below(10) {
        0 => i16::MAX,
        1 => i16::MIN,
        2 => 0,
        _ => rng.range(-2000, 2000) as i16,
    }
}

pub fn gen_spec(rng: &mut Rng) -> (KyteaSpec, Vec<Vec<char>>) {
    let asize = rng.urange(2, 6);
    let alpha = text::alphabet(rng, asize, text::Flavor::Any);
    let mut texts = vec![];
    for _ in 0..rng.urange(2, 4) {
        let n = rng.urange(1, 30);
        texts.push(text::text_from(rng, &alpha, n));
    }
    // windows: usually 1..4; sometimes beyond the 7-slot score padding of the predictor
    let wide = rng.chance(1, 10);
    let char_w = if wide && rng.chance(1, 2) { rng.urange(8, 12) } else { rng.urange(1, 4) } as u8;
    let type_w = if wide && rng.chance(1, 2) { rng.urange(8, 12) } else { rng.urange(1, 4) } as u8;
    let dict_n = rng.urange(1, 5) as u8;
    let n_dicts = rng.urange(0, 8) as u8;
    let n_tags = rng.below(4) as u32;
    let mut char_map: Vec<char> = vec!['K', 'T', 'H', 'R', 'D', 'O'];
    let with_04 = rng.chance(1, 5);
    if with_04 {
        char_map.push('\u{4}');
    }
    // rare: a character map so large that the characters in use get ids above 32767
    let big_map = rng.chance(1, 30);
    if big_map {
        let mut u = 0x4E00u32;
        while char_map.len() < 36000 {
            if let Some(c) = char::from_u32(u) {
                if !alpha.contains(&c) {
                    char_map.push(c);
                }
            }
            u += 1;
            if u == 0xA000 {
                u = 0xAC00;
            }
        }
    }
    for &c in &alpha {
        if !char_map.contains(&c) {
            char_map.push(c);
        }
    }
    let mut char_ngrams: Vec<(Vec<char>, Vec<i16>)> = vec![];
    let n_char = if rng.chance(1, 12) { 0 } else { rng.urange(1, 10) };
    for _ in 0..n_char {
        let t = rng.pick(&texts);
        let n = rng.urange(1, (2 * usize::from(char_w)).min(t.len()).min(4));
        let s = rng.below(t.len() - n + 1);
        let g = t[s..s + n].to_vec();
        if char_ngrams.iter().any(|x| x.0 == g) {
            continue;
        }
        let len = 2 * usize::from(char_w) - n + 1;
        char_ngrams.push((g, (0..len).map(|_| w16(rng)).collect()));
    }
    let letters = ['D', 'R', 'H', 'T', 'K', 'O'];
    let mut type_ngrams: Vec<(Vec<char>, Vec<i16>)> = vec![];
    let n_type = if rng.chance(1, 12) { 0 } else { rng.urange(1, 8) };
    for _ in 0..n_type {
        let t = rng.pick(&texts);
        let n = rng.urange(1, (2 * usize::from(type_w)).min(t.len()).min(4));
        let s = rng.below(t.len() - n + 1);
        let mut g: Vec<char> = t[s..s + n].iter().map(|&c| letters[usize::from(text::ctype(c)) - 1]).collect();
        if with_04 && rng.chance(1, 3) {
            let i = rng.below(g.len());
            g[i] = '\u{4}';
        }
        if type_ngrams.iter().any(|x| x.0 == g) {
            continue;
        }
        let len = 2 * usize::from(type_w) - n + 1;
        type_ngrams.push((g, (0..len).map(|_| w16(rng)).collect()));
    }
    let mut words: Vec<(Vec<char>, u8)> = vec![];
    for _ in 0..rng.below(8) {
        let t = rng.pick(&texts);
        let n = rng.urange(1, t.len().min(7));
        let s = rng.below(t.len() - n + 1);
        let w = t[s..s + n].to_vec();
        if words.iter().any(|x| x.0 == w) {
            continue;
        }
        let mask = if n_dicts == 0 {
            0
        } else if rng.chance(1, 3) {
            // membership in exactly one dictionary (incl. the last one)
            1u8 << rng.below(usize::from(n_dicts))
        } else {
            (rng.below(256) as u8) & (((1u16 << n_dicts) - 1) as u8)
        };
        words.push((w, mask));
    }
    // rare: a very long dictionary word (length bucket arithmetic beyond 255)
    if rng.chance(1, 15) {
        let len = *rng.pick(&[255usize, 256, 257, 258, 259, 260, 513]);
        let w: Vec<char> = (0..len).map(|_| *rng.pick(&alpha)).collect();
        if !words.iter().any(|x| x.0 == w) {
            let mask = if n_dicts == 0 {
            0
        } else if rng.chance(1, 3) {
            // membership in exactly one dictionary (incl. the last one)
            1u8 << rng.below(usize::from(n_dicts))
        } else {
            (rng.below(256) as u8) & (((1u16 << n_dicts) - 1) as u8)
        };
            words.push((w, mask));
        }
    }
    // membership weights: usually moderate; sometimes so large that the sum over several dictionaries leaves the 16-bit range
    let heavy = rng.chance(1, 6);
    let dict_vec: Vec<i16> = (0..3 * usize::from(dict_n) * usize::from(n_dicts))
        .map(|_| if heavy { *rng.pick(&[20000i16, -20000, 32767, -32768, 15000, -9000]) } else { rng.range(-3000, 3000) as i16 })
        .collect();
    let spec = KyteaSpec {
        char_w,
        type_w,
        dict_n,
        n_tags,
        char_map,
        char_ngrams,
        type_ngrams,
        bias: w16(rng),
        n_dicts,
        dict_vec,
        words,
        extra_weights: if rng.chance(1, 3) { rng.urange(1, 3) } else { 0 },
        with_subword_dict: rng.chance(1, 2),
        with_self_dict: rng.chance(1, 2),
        trailing: (0..rng.below(9)).map(|_| rng.below(256) as u8).collect(),
        empty_tries_present: rng.chance(1, 2),
        in_ngram_section: std::cell::Cell::new(false),
    };
    (spec, texts)
}
