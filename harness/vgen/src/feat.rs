//! Reference feature extractor for the trainer, written from the property statements:
//! boundary features are the n-grams of length 1..N lying inside the window around the boundary
//! with their relative positions, plus one dictionary feature (left / inside / right, by length
//! bucket) for every dictionary-word occurrence touching the boundary; tag features are the
//! n-grams of length |token|+1..|token|+N that contain the token, relative position = characters
//! past the token's last character.

#[derive(Clone, Debug, PartialEq, Eq, Hash, PartialOrd, Ord)]
pub enum RFeature {
    Char { ngram: String, rel: i64 },
    Type { ngram: Vec<u8>, rel: i64 },
    /// side: 0 = left edge, 1 = inside, 2 = right edge
    Dict { length: usize, side: u8 },
}

#[derive(Clone, Debug)]
pub struct TrainConfig {
    pub char_w: u8,
    pub char_n: u8,
    pub type_w: u8,
    pub type_n: u8,
    pub dict: Vec<String>,
    pub bucket: u8,
}

/// Features (with repetitions) of boundary `b` (between characters b and b+1).
pub fn boundary_features(cfg: &TrainConfig, chars: &[char], types: &[u8], b: usize) -> Vec<RFeature> {
    let n = chars.len() as i64;
    let mut out = vec![];
    let centre = b as i64 + 1;
    let mut ngrams = |w: u8, nmax: u8, is_char: bool, out: &mut Vec<RFeature>| {
        let lo = (centre - i64::from(w)).max(0);
        let hi = (centre + i64::from(w)).min(n); // exclusive
        for len in 1..=i64::from(nmax) {
            let mut j = lo;
            while j + len <= hi {
                let (a, z) = (j as usize, (j + len) as usize);
                if is_char {
                    out.push(RFeature::Char { ngram: chars[a..z].iter().collect(), rel: j - centre });
                } else {
                    out.push(RFeature::Type { ngram: types[a..z].to_vec(), rel: j - centre });
                }
                j += 1;
            }
        }
    };
    ngrams(cfg.char_w, cfg.char_n, true, &mut out);
    ngrams(cfg.type_w, cfg.type_n, false, &mut out);
    for w in &cfg.dict {
        let g: Vec<char> = w.chars().collect();
        if g.is_empty() || g.len() > chars.len() {
            continue;
        }
        let length = g.len().min(usize::from(cfg.bucket));
        for s in 0..=chars.len() - g.len() {
            if chars[s..s + g.len()] != g[..] {
                continue;
            }
            let e = s + g.len();
            if s > 0 && b == s - 1 {
                out.push(RFeature::Dict { length, side: 0 });
            }
            if b >= s && b + 1 < e {
                out.push(RFeature::Dict { length, side: 1 });
            }
            if e < chars.len() && b == e - 1 {
                out.push(RFeature::Dict { length, side: 2 });
            }
        }
    }
    out
}

/// Tag features of the token [ts, te).
pub fn tag_features(char_n: u8, type_n: u8, chars: &[char], types: &[u8], ts: usize, te: usize) -> Vec<RFeature> {
    let total = chars.len();
    let tl = te - ts;
    let mut out = vec![];
    for (nmax, is_char) in [(char_n, true), (type_n, false)] {
        for extra in 1..=usize::from(nmax) {
            let len = tl + extra;
            if len > total {
                continue;
            }
            for i in 0..=total - len {
                if i <= ts && i + len >= te {
                    let rel = (i + len - te) as i64;
                    if is_char {
                        out.push(RFeature::Char { ngram: chars[i..i + len].iter().collect(), rel });
                    } else {
                        out.push(RFeature::Type { ngram: types[i..i + len].to_vec(), rel });
                    }
                }
            }
        }
    }
    out
}


/// Features of every boundary of a sentence in one pass (same definition as `boundary_features`,
/// but dictionary occurrences are located once per sentence, so very long sentences stay cheap).
pub fn sentence_features(cfg: &TrainConfig, chars: &[char], types: &[u8]) -> Vec<Vec<RFeature>> {
    let n = chars.len();
    let nb = n.saturating_sub(1);
    let mut out: Vec<Vec<RFeature>> = vec![vec![]; nb];
    let no_dict = TrainConfig { dict: vec![], ..cfg.clone() };
    for (b, o) in out.iter_mut().enumerate() {
        *o = boundary_features(&no_dict, chars, types, b);
    }
    for w in &cfg.dict {
        let g: Vec<char> = w.chars().collect();
        if g.is_empty() || g.len() > n {
            continue;
        }
        let length = g.len().min(usize::from(cfg.bucket));
        for s in 0..=n - g.len() {
            if chars[s] != g[0] || chars[s..s + g.len()] != g[..] {
                continue;
            }
            let e = s + g.len();
            if s > 0 {
                out[s - 1].push(RFeature::Dict { length, side: 0 });
            }
            for o in out.iter_mut().take(e - 1).skip(s) {
                o.push(RFeature::Dict { length, side: 1 });
            }
            if e < n {
                out[e - 1].push(RFeature::Dict { length, side: 2 });
            }
        }
    }
    out
}
