//! Reference models: executable specifications written from the property statements and the
//! documentation. No automaton, no merging, no padding, no cache, no byte offsets.

use crate::mirror::*;
use crate::text::ctypes;

/// Reference boundary scores (i64) of `model` on `chars`: bias plus, for every occurrence of
/// every entry, the weight the entry assigns to the boundary's position relative to the occurrence.
pub fn ref_scores(model: &ModelData, chars: &[char]) -> Vec<i64> {
    let n = chars.len();
    let nb = n.saturating_sub(1);
    let mut y = vec![i64::from(model.bias); nb];
    let types = ctypes(chars);
    let wc = i64::from(model.char_window_size);
    let wt = i64::from(model.type_window_size);
    for d in &model.char_ngram_model {
        let g: Vec<char> = d.ngram.chars().collect();
        add_occurrences(&mut y, chars, &g, &d.weights, wc);
    }
    for d in &model.type_ngram_model {
        add_occurrences(&mut y, &types, &d.ngram, &d.weights, wt);
    }
    for d in &model.dict_model {
        let g: Vec<char> = d.word.chars().collect();
        let m = g.len() as i64;
        add_occurrences(&mut y, chars, &g, &d.weights, m);
    }
    y
}

/// For every occurrence of `g` ending (exclusively) at position `e`, weight `j` applies to
/// boundary `b = j + e - 1 - reach` (boundary b lies between characters b and b+1).
fn add_occurrences<T: PartialEq>(y: &mut [i64], seq: &[T], g: &[T], w: &[i32], reach: i64) {
    if g.is_empty() || g.len() > seq.len() {
        return;
    }
    for s in 0..=seq.len() - g.len() {
        if seq[s..s + g.len()] == *g {
            let e = (s + g.len()) as i64;
            for (j, &x) in w.iter().enumerate() {
                let b = j as i64 + e - 1 - reach;
                if b >= 0 && (b as usize) < y.len() {
                    y[b as usize] += i64::from(x);
                }
            }
        }
    }
}

/// Counters describing which interactions a (model, text) pair exercises.
#[derive(Clone, Debug, Default)]
pub struct ScoreFacts {
    pub char_occ: u64,
    pub type_occ: u64,
    pub dict_occ: u64,
    pub overhang_left: u64,
    pub overhang_right: u64,
    pub zero_scores: u64,
    pub multibyte_in_match: [u64; 5],
}

pub fn score_facts(model: &ModelData, chars: &[char], scores: &[i64]) -> ScoreFacts {
    let mut f = ScoreFacts::default();
    let nb = chars.len().saturating_sub(1) as i64;
    let types = ctypes(chars);
    let mut visit = |seq_len: usize, occ: &mut u64, s: usize, glen: usize, wlen: usize, reach: i64, f2: &mut (u64, u64)| {
        let _ = seq_len;
        *occ += 1;
        let e = (s + glen) as i64;
        let lo = e - 1 - reach;
        let hi = lo + wlen as i64 - 1;
        if lo < 0 {
            f2.0 += 1;
        }
        if hi >= nb {
            f2.1 += 1;
        }
    };
    let mut oh = (0u64, 0u64);
    for d in &model.char_ngram_model {
        let g: Vec<char> = d.ngram.chars().collect();
        if g.len() > chars.len() {
            continue;
        }
        for s in 0..=chars.len() - g.len() {
            if chars[s..s + g.len()] == g[..] {
                visit(chars.len(), &mut f.char_occ, s, g.len(), d.weights.len(), i64::from(model.char_window_size), &mut oh);
                for c in &g {
                    f.multibyte_in_match[c.len_utf8()] += 1;
                }
            }
        }
    }
    for d in &model.type_ngram_model {
        let g = &d.ngram;
        if g.len() > types.len() {
            continue;
        }
        for s in 0..=types.len() - g.len() {
            if types[s..s + g.len()] == g[..] {
                visit(types.len(), &mut f.type_occ, s, g.len(), d.weights.len(), i64::from(model.type_window_size), &mut oh);
            }
        }
    }
    for d in &model.dict_model {
        let g: Vec<char> = d.word.chars().collect();
        if g.len() > chars.len() {
            continue;
        }
        for s in 0..=chars.len() - g.len() {
            if chars[s..s + g.len()] == g[..] {
                visit(chars.len(), &mut f.dict_occ, s, g.len(), d.weights.len(), g.len() as i64, &mut oh);
                for c in &g {
                    f.multibyte_in_match[c.len_utf8()] += 1;
                }
            }
        }
    }
    f.overhang_left = oh.0;
    f.overhang_right = oh.1;
    f.zero_scores = scores.iter().filter(|&&s| s == 0).count() as u64;
    f
}

/// Static facts about a model's pattern set.
#[derive(Clone, Debug, Default)]
pub struct ModelFacts {
    /// two character entries of different length carry the same weight values (modulo trailing zeros)
    pub value_equal_weights: bool,
    pub suffix_related: bool,
    pub equal_entries: bool,
    pub long_weights: bool,
    pub short_weights: bool,
}

pub fn model_facts(model: &ModelData) -> ModelFacts {
    let mut f = ModelFacts::default();
    {
        let trim = |w: &Vec<i32>| {
            let mut v = w.clone();
            while v.last() == Some(&0) {
                v.pop();
            }
            v
        };
        let mut seen: Vec<(usize, Vec<i32>)> = vec![];
        for (len, w) in model.char_ngram_model.iter().map(|d| (d.ngram.chars().count(), &d.weights)).chain(model.dict_model.iter().map(|d| (d.word.chars().count() + 1000, &d.weights))) {
            let t = trim(w);
            if !t.is_empty() && seen.iter().any(|(l, x)| *l != len && *x == t) {
                f.value_equal_weights = true;
            }
            seen.push((len, t));
        }
    }
    let mut pats: Vec<Vec<char>> = vec![];
    for d in &model.char_ngram_model {
        pats.push(d.ngram.chars().collect());
        if d.weights.len() > 8 {
            f.long_weights = true;
        } else {
            f.short_weights = true;
        }
    }
    for d in &model.dict_model {
        let w: Vec<char> = d.word.chars().collect();
        if pats.contains(&w) {
            f.equal_entries = true;
        }
        pats.push(w);
    }
    'o: for a in &pats {
        for b in &pats {
            if a.len() < b.len() && b[b.len() - a.len()..] == a[..] {
                f.suffix_related = true;
                break 'o;
            }
        }
    }
    let tp: Vec<&Vec<u8>> = model.type_ngram_model.iter().map(|d| &d.ngram).collect();
    'p: for a in &tp {
        for b in &tp {
            if a.len() < b.len() && b[b.len() - a.len()..] == a[..] {
                f.suffix_related = true;
                break 'p;
            }
        }
    }
    f
}

/// A token of the reference partition: character span [start, end).
#[derive(Clone, Debug, PartialEq, Eq)]
pub struct Span {
    pub start: usize,
    pub end: usize,
}

/// Reference partition: split at word boundaries (label 1), drop every segment containing an
/// unknown (label 2).
pub fn ref_partition(n_chars: usize, labels: &[u8]) -> Vec<Span> {
    assert_eq!(labels.len() + 1, n_chars);
    let mut out = vec![];
    let mut start = 0;
    let mut unknown = false;
    for (i, &l) in labels.iter().enumerate() {
        match l {
            1 => {
                if !unknown {
                    out.push(Span { start, end: i + 1 });
                }
                start = i + 1;
                unknown = false;
            }
            2 => unknown = true,
            _ => {}
        }
    }
    if !unknown {
        out.push(Span { start, end: n_chars });
    }
    out
}

/// Result of the reference tagger for one token.
#[derive(Clone, Debug, PartialEq, Eq)]
pub struct RefTags {
    /// One entry per category of the model-wide tag count.
    pub tags: Vec<Option<String>>,
    /// Candidate scores in the documented layout (per category: (tag, score)); a category with one
    /// candidate reports score 0. Empty when the token has no tag model.
    pub candidates: Vec<Vec<(String, i64)>>,
    pub has_model: bool,
    pub ties: u64,
    pub matched_rel: Vec<u8>,
}

/// Reference tagger for the token `span` of `chars`.
pub fn ref_tags(model: &ModelData, chars: &[char], types: &[u8], span: &Span) -> RefTags {
    let n_tags = model.n_tags();
    let surface: String = chars[span.start..span.end].iter().collect();
    let mut out = RefTags { tags: vec![None; n_tags], candidates: vec![], has_model: false, ties: 0, matched_rel: vec![] };
    let Some(tm) = model.tag_models.iter().find(|t| t.token == surface) else {
        return out;
    };
    out.has_model = true;
    let n_class = ModelData::n_classes(tm);
    let mut scores: Vec<i64> = tm.bias.iter().map(|&b| i64::from(b)).collect();
    scores.resize(n_class, 0);
    let last = span.end as i64 - 1;
    let mut matched_rel = vec![];
    {
        let mut apply = |glen: usize, matches: &dyn Fn(usize) -> bool, tw: &TagWeight| {
            let r = i64::from(tw.rel_position);
            let end_incl = last + r;
            let start = end_incl + 1 - glen as i64;
            if start >= 0 && (end_incl as usize) < chars.len() && matches(start as usize) {
                matched_rel.push(tw.rel_position);
                for (s, &w) in scores.iter_mut().zip(&tw.weights) {
                    *s += i64::from(w);
                }
            }
        };
        for d in &tm.char_ngram_model {
            let g: Vec<char> = d.ngram.chars().collect();
            for tw in &d.weights {
                apply(g.len(), &|s| chars[s..s + g.len()] == g[..], tw);
            }
        }
        for d in &tm.type_ngram_model {
            let g = &d.ngram;
            for tw in &d.weights {
                apply(g.len(), &|s| types[s..s + g.len()] == g[..], tw);
            }
        }
    }
    out.matched_rel = matched_rel;
    let mut off = 0;
    for (k, cands) in tm.tags.iter().enumerate() {
        if cands.len() >= 2 {
            let sl = &scores[off..off + cands.len()];
            let mut best = 0;
            for (i, &s) in sl.iter().enumerate() {
                if s > sl[best] {
                    best = i;
                }
            }
            if sl.iter().filter(|&&s| s == sl[best]).count() > 1 {
                out.ties += 1;
            }
            out.tags[k] = Some(cands[best].clone());
            out.candidates.push(cands.iter().cloned().zip(sl.iter().copied()).collect());
            off += cands.len();
        } else if cands.len() == 1 {
            out.tags[k] = Some(cands[0].clone());
            out.candidates.push(vec![(cands[0].clone(), 0)]);
        } else {
            out.candidates.push(vec![]);
        }
    }
    out
}
