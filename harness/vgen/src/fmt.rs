//! Reference parsers and writers of the tokenized and partial-annotation text formats, written
//! from the doc comments of `Sentence::from_tokenized` / `from_partial_annotation`.

use crate::oracle::{ref_partition, Span};

/// Abstract sentence: characters, one label per adjacent pair (0 = not a boundary, 1 = word
/// boundary, 2 = unknown) and a tag list per character (`None` = absent).
#[derive(Clone, Debug, PartialEq, Eq)]
pub struct RefSentence {
    pub chars: Vec<char>,
    pub labels: Vec<u8>,
    pub tags: Vec<Vec<Option<String>>>,
}

impl RefSentence {
    pub fn text(&self) -> String {
        self.chars.iter().collect()
    }
    /// Tag list of character `i` without trailing absent entries.
    pub fn trimmed(&self, i: usize) -> Vec<Option<String>> {
        trim(&self.tags[i])
    }
    pub fn max_tags(&self) -> usize {
        self.tags.iter().map(|t| t.len()).max().unwrap_or(0)
    }
}

pub fn trim(ts: &[Option<String>]) -> Vec<Option<String>> {
    let mut v = ts.to_vec();
    while matches!(v.last(), Some(None)) {
        v.pop();
    }
    v
}

fn finish_tag(cur: &mut Option<String>, tags: &mut [Vec<Option<String>>]) {
    if let Some(t) = cur.take() {
        let slot = if t.is_empty() { None } else { Some(t) };
        tags.last_mut().expect("tag before any character").push(slot);
    }
}

/// Tokenized format: tokens separated by one space; `/tag` after a token (several allowed, empty
/// = absent); a backslash escapes the following character. Errors: empty input, empty text,
/// leading/trailing/consecutive spaces, a slash that does not follow a character, NUL.
pub fn parse_tokenized(s: &str) -> Result<RefSentence, &'static str> {
    if s.is_empty() {
        return Err("empty");
    }
    let mut chars = vec![];
    let mut labels = vec![];
    let mut tags: Vec<Vec<Option<String>>> = vec![];
    let mut cur_tag: Option<String> = None;
    let mut after_space = false;
    let mut esc = false;
    for c in s.chars() {
        if !esc && c == '\\' {
            esc = true;
            continue;
        }
        if !esc && c == ' ' {
            if chars.is_empty() {
                return Err("leading space");
            }
            if after_space {
                return Err("consecutive spaces");
            }
            finish_tag(&mut cur_tag, &mut tags);
            after_space = true;
            continue;
        }
        if !esc && c == '/' {
            if chars.is_empty() || after_space {
                return Err("slash must follow a character");
            }
            finish_tag(&mut cur_tag, &mut tags);
            cur_tag = Some(String::new());
            continue;
        }
        esc = false;
        if c == '\0' {
            return Err("NUL");
        }
        if let Some(t) = cur_tag.as_mut() {
            t.push(c);
            continue;
        }
        if !chars.is_empty() {
            labels.push(if after_space { 1 } else { 0 });
        }
        after_space = false;
        chars.push(c);
        tags.push(vec![]);
    }
    if after_space {
        return Err("trailing space");
    }
    if chars.is_empty() {
        return Err("no character");
    }
    finish_tag(&mut cur_tag, &mut tags);
    Ok(RefSentence { chars, labels, tags })
}

/// Partial-annotation format: characters alternate with annotations; an annotation is any number
/// of `/tag` followed by one of `|` (boundary), `-` (no boundary), space (unknown); a backslash
/// escapes the following character inside tags. The first character of each pair is literal.
pub fn parse_partial(s: &str) -> Result<RefSentence, &'static str> {
    if s.is_empty() {
        return Err("empty");
    }
    let mut chars = vec![];
    let mut labels = vec![];
    let mut tags: Vec<Vec<Option<String>>> = vec![];
    let mut cur_tag: Option<String> = None;
    let mut esc = false;
    let mut expect_char = true;
    for c in s.chars() {
        if expect_char {
            if c == '\0' {
                return Err("NUL");
            }
            chars.push(c);
            tags.push(vec![]);
            expect_char = false;
            continue;
        }
        if !esc {
            match c {
                '\\' => {
                    esc = true;
                    continue;
                }
                ' ' | '-' | '|' => {
                    finish_tag(&mut cur_tag, &mut tags);
                    labels.push(match c {
                        ' ' => 2,
                        '-' => 0,
                        _ => 1,
                    });
                    expect_char = true;
                    continue;
                }
                '/' => {
                    finish_tag(&mut cur_tag, &mut tags);
                    cur_tag = Some(String::new());
                    continue;
                }
                _ => {}
            }
        }
        esc = false;
        match cur_tag.as_mut() {
            Some(t) => t.push(c),
            None => return Err("invalid boundary character"),
        }
    }
    if expect_char {
        return Err("ends after a boundary symbol");
    }
    finish_tag(&mut cur_tag, &mut tags);
    Ok(RefSentence { chars, labels, tags })
}

fn push_escaped(out: &mut String, s: &str, special: &[char]) {
    for c in s.chars() {
        if special.contains(&c) {
            out.push('\\');
        }
        out.push(c);
    }
}

pub const TOK_SPECIAL: &[char] = &[' ', '\\', '/'];

/// Reference tokenized writer: the tokens of the reference partition, separated by one space;
/// surface and tags escaped; tags of the token = tags of its last character without trailing
/// absent entries.
pub fn write_tokenized(s: &RefSentence) -> String {
    let mut out = String::new();
    for (k, sp) in ref_partition(s.chars.len(), &s.labels).iter().enumerate() {
        if k != 0 {
            out.push(' ');
        }
        write_token(&mut out, s, sp);
    }
    out
}

pub fn write_token(out: &mut String, s: &RefSentence, sp: &Span) {
    let surf: String = s.chars[sp.start..sp.end].iter().collect();
    push_escaped(out, &surf, TOK_SPECIAL);
    for t in s.trimmed(sp.end - 1) {
        out.push('/');
        if let Some(t) = t {
            push_escaped(out, &t, TOK_SPECIAL);
        }
    }
}

/// Compares two abstract sentences up to trailing absent tags.
pub fn same_modulo_trailing(a: &RefSentence, b: &RefSentence) -> Result<(), String> {
    if a.chars != b.chars {
        return Err(format!("text differs: {:?} vs {:?}", a.text(), b.text()));
    }
    if a.labels != b.labels {
        return Err(format!("labels differ: {:?} vs {:?}", a.labels, b.labels));
    }
    for i in 0..a.chars.len() {
        if a.trimmed(i) != b.trimmed(i) {
            return Err(format!("tags of char {i} differ: {:?} vs {:?}", a.trimmed(i), b.trimmed(i)));
        }
    }
    Ok(())
}
