//! Generator of well-formed models together with texts in which their patterns occur.

use std::collections::BTreeSet;

use crate::mirror::*;
use crate::rng::Rng;
use crate::text::{self, Flavor};

#[derive(Clone, Copy, Debug, PartialEq, Eq)]
pub enum TagMode {
    Never,
    Maybe,
    Always,
}

#[derive(Clone, Debug)]
pub struct GenOpts {
    pub max_window: u8,
    pub max_text_len: usize,
    pub min_texts: usize,
    pub max_texts: usize,
    pub tags: TagMode,
    pub flavor: Flavor,
    /// Miri-sized: windows <= 2, type window 1 or >= 4 only, <= 4 patterns per kind, texts <= 6.
    pub tiny: bool,
    /// Allow patterns hanging around (large windows, big weight vectors).
    pub max_patterns: usize,
    /// Append one text of about this many characters (positions beyond 65535).
    pub force_long_text: Option<usize>,
}

impl Default for GenOpts {
    fn default() -> Self {
        GenOpts {
            max_window: 255,
            max_text_len: 2000,
            min_texts: 3,
            max_texts: 8,
            tags: TagMode::Maybe,
            flavor: Flavor::Any,
            tiny: false,
            max_patterns: 12,
            force_long_text: None,
        }
    }
}

impl GenOpts {
    pub fn tiny() -> Self {
        GenOpts {
            max_window: 2,
            max_text_len: 6,
            min_texts: 1,
            max_texts: 2,
            tags: TagMode::Maybe,
            flavor: Flavor::Any,
            tiny: true,
            max_patterns: 4,
            force_long_text: None,
        }
    }
}

#[derive(Clone, Debug)]
pub struct Case {
    pub model: ModelData,
    pub texts: Vec<Vec<char>>,
    pub weight_class: &'static str,
}

pub fn gen_window(rng: &mut Rng, max: u8) -> u8 {
    let w = match rng.weighted(&[70, 20, 10]) {
        0 => rng.urange(1, 3),
        1 => rng.urange(4, 8),
        _ => {
            if rng.chance(1, 3) {
                *rng.pick(&[9usize, 16, 64, 127, 128, 254, 255])
            } else {
                rng.urange(9, 255)
            }
        }
    };
    (w.min(usize::from(max)).max(1)) as u8
}

#[derive(Clone, Copy, Debug, PartialEq, Eq)]
pub enum WClass {
    Tiny,
    Full,
    Sparse,
}

pub fn gen_weight(rng: &mut Rng, class: WClass) -> i32 {
    match class {
        WClass::Tiny => rng.range(-2, 2) as i32,
        WClass::Full => match rng.below(12) {
            0 => 32767,
            1 => -32768,
            2 => -32767,
            3 => 0,
            _ => rng.range(-32768, 32767) as i32,
        },
        WClass::Sparse => {
            if rng.chance(1, 4) {
                rng.range(-300, 300) as i32
            } else {
                0
            }
        }
    }
}

pub fn gen_weights(rng: &mut Rng, len: usize, class: WClass) -> Vec<i32> {
    let mut w: Vec<i32> = (0..len).map(|_| gen_weight(rng, class)).collect();
    // leading zeros (positions far to the left that an entry does not vote on)
    if len > 1 && rng.chance(1, 8) {
        let k = rng.urange(1, len - 1);
        for x in w.iter_mut().take(k) {
            *x = 0;
        }
    }
    // trailing zeros (serialisation of fixed-length vectors trims them)
    if len > 0 && rng.chance(1, 6) {
        let k = rng.urange(1, len);
        for x in w.iter_mut().rev().take(k) {
            *x = 0;
        }
    }
    w
}

fn substrings(rng: &mut Rng, texts: &[Vec<char>], max_len: usize) -> Vec<char> {
    let t = rng.pick(texts);
    let len = rng.urange(1, max_len.min(t.len()).max(1));
    let start = rng.below(t.len() - len + 1);
    t[start..start + len].to_vec()
}

fn pattern_len(rng: &mut Rng, cap: usize) -> usize {
    // mostly short, sometimes long (> 8 positions => variable-length weight layout)
    let l = match rng.weighted(&[40, 30, 20, 9, 1]) {
        0 => 1,
        1 => 2,
        2 => rng.urange(3, 4),
        3 => rng.urange(5, 14),
        _ => rng.urange(15, 80),
    };
    l.min(cap).max(1)
}

const TAG_NAMES: &[&str] = &[
    "N", "V", "名詞", "動詞", "助詞", "x/y", "a b", "カセー", "\\", "A-B", "t|u", "𠮷", "é", "n1", "n2", "n3", "n4", "名\0詞", " lead", "trail\u{3000}", "",
    "n5", "n6", "n7",
];

pub fn gen_case(rng: &mut Rng, opts: &GenOpts) -> Case {
    // rare "big" class: hundreds of patterns (large automata, many suffix relations)
    let big = !opts.tiny && opts.max_text_len >= 40 && rng.chance(1, 40);
    let alpha_size = if opts.tiny {
        rng.urange(2, 4)
    } else if big {
        rng.urange(6, 10)
    } else {
        rng.urange(2, 7)
    };
    let mut alpha = text::alphabet(rng, alpha_size, opts.flavor);
    if opts.tiny && !rng.chance(1, 12) {
        // the char-wise automaton is indexed by code point: high code points make its construction
        // and serialisation cost minutes under Miri, so most Miri-sized cases use low code points
        // (one representative per character type)
        for c in alpha.iter_mut() {
            if (*c as u32) > 0x5000 {
                *c = match text::ctype(*c) {
                    text::DIGIT => '7',
                    text::ROMAN => 'x',
                    text::KATAKANA => 'ア',
                    text::KANJI => '人',
                    text::HIRAGANA => 'の',
                    _ => '。',
                };
            }
        }
        alpha.sort_unstable();
        alpha.dedup();
    }
    let n_texts = rng.urange(opts.min_texts, opts.max_texts);
    let mut texts = vec![];
    for _ in 0..n_texts {
        let len = text::text_len(rng, opts.max_text_len);
        texts.push(text::text_from(rng, &alpha, len));
    }
    if let Some(n) = opts.force_long_text {
        let len = n + rng.below(n / 8 + 1);
        texts.push(text::text_from(rng, &alpha, len));
    }
    // rare: one text long enough to contain a dictionary word / tag token of several hundred characters
    let long_word = !opts.tiny && opts.max_text_len >= 40 && rng.chance(1, 50);
    let mut long_idx = 0;
    if long_word {
        let len = rng.urange(320, 420);
        texts.push(text::text_from(rng, &alpha, len));
        long_idx = texts.len() - 1;
    }
    if big {
        for _ in 0..2 {
            let len = rng.urange(opts.max_text_len.min(150), opts.max_text_len.min(500));
            texts.push(text::text_from(rng, &alpha, len));
        }
    }
    let types: Vec<Vec<char>> = texts
        .iter()
        .map(|t| t.iter().map(|&c| char::from(text::ctype(c))).collect())
        .collect();

    let wc = gen_window(rng, opts.max_window);
    let mut wt = gen_window(rng, opts.max_window);
    if opts.tiny && (wt == 2 || wt == 3) {
        // the 8^(2W) table is out of reach for Miri
        wt = 1;
    }
    let class = *rng.pick(&[WClass::Tiny, WClass::Tiny, WClass::Full, WClass::Full, WClass::Sparse]);
    let weight_class = match class {
        WClass::Tiny => "tiny",
        WClass::Full => "full",
        WClass::Sparse => "sparse",
    };

    let maxp = if big { rng.urange(100, 500) } else { opts.max_patterns };
    // --- char n-grams
    let mut char_set: BTreeSet<Vec<char>> = BTreeSet::new();
    let n_char = if rng.chance(1, 8) { 0 } else if big { rng.urange(maxp / 2, maxp) } else { rng.urange(1, maxp) };
    for _ in 0..n_char {
        let cap = 2 * usize::from(wc);
        let t = rng.pick(&texts).clone();
        let len = pattern_len(rng, cap.min(t.len()));
        let start = rng.below(t.len() - len + 1);
        let g = t[start..start + len].to_vec();
        // suffix chain
        if rng.chance(1, 3) {
            for j in 1..g.len() {
                if char_set.len() < 3 * maxp {
                    char_set.insert(g[j..].to_vec());
                }
            }
        }
        char_set.insert(g);
    }
    // --- dictionary
    let mut dict_set: BTreeSet<Vec<char>> = BTreeSet::new();
    let n_dict = if rng.chance(1, 4) { 0 } else if big { rng.urange(20, maxp / 2) } else { rng.urange(1, maxp.min(8)) };
    for _ in 0..n_dict {
        let w = if rng.chance(1, 4) && !char_set.is_empty() {
            // entry equal to a char n-gram
            char_set.iter().nth(rng.below(char_set.len())).unwrap().clone()
        } else {
            let maxl = if opts.tiny { 4 } else { 40 };
            substrings(rng, &texts, maxl)
        };
        if rng.chance(1, 4) {
            for j in 1..w.len() {
                if dict_set.len() < 2 * maxp && rng.chance(1, 2) {
                    dict_set.insert(w[j..].to_vec());
                }
            }
        }
        dict_set.insert(w);
    }
    if long_word {
        let t = texts[long_idx].clone();
        let len = *rng.pick(&[255usize, 256, 257, 300]);
        let st = rng.below(t.len() - len + 1);
        dict_set.insert(t[st..st + len].to_vec());
    }
    // --- type n-grams
    let mut type_set: BTreeSet<Vec<u8>> = BTreeSet::new();
    let n_type = if rng.chance(1, 6) { 0 } else if big { rng.urange(20, maxp / 3) } else { rng.urange(1, maxp.min(8)) };
    for _ in 0..n_type {
        let cap = 2 * usize::from(wt);
        let t = rng.pick(&types).clone();
        let len = pattern_len(rng, cap.min(t.len()));
        let start = rng.below(t.len() - len + 1);
        let g: Vec<u8> = t[start..start + len].iter().map(|&c| c as u8).collect();
        if rng.chance(1, 3) {
            for j in 1..g.len() {
                if type_set.len() < 3 * maxp {
                    type_set.insert(g[j..].to_vec());
                }
            }
        }
        type_set.insert(g);
    }

    let mut char_ngram_model: Vec<NgramData<String>> = char_set
        .iter()
        .map(|g| NgramData {
            ngram: g.iter().collect::<String>(),
            weights: gen_weights(rng, 2 * usize::from(wc) - g.len() + 1, class),
        })
        .collect();
    let type_ngram_model = type_set
        .iter()
        .map(|g| NgramData {
            ngram: g.clone(),
            weights: gen_weights(rng, 2 * usize::from(wt) - g.len() + 1, class),
        })
        .collect();
    let mut dict_model: Vec<WordWeightRecord> = dict_set
        .iter()
        .map(|w| WordWeightRecord {
            word: w.iter().collect::<String>(),
            weights: gen_weights(rng, w.len() + 1, class),
            comment: if rng.chance(1, 5) {
                "c,\"x\"\n".to_string()
            } else if rng.chance(1, 40) {
                // a long annotation (comments are free text of any length)
                "註,\"long\" ".repeat(rng.urange(8, 400))
            } else {
                String::new()
            },
        })
        .collect();
    rng.shuffle(&mut dict_model);
    // a word listed twice (adjacent records, or apart): both records count
    if !dict_model.is_empty() && rng.chance(1, 8) {
        let i = rng.below(dict_model.len());
        let mut twin = dict_model[i].clone();
        twin.weights = gen_weights(rng, twin.word.chars().count() + 1, class);
        let at = if rng.chance(2, 3) { i + 1 } else { rng.below(dict_model.len() + 1) };
        dict_model.insert(at, twin);
    }

    // entries with the same weight values at different positions / lengths (value-equal, not position-equal)
    if rng.chance(1, 8) {
        let donor: Option<Vec<i32>> = char_ngram_model
            .iter()
            .map(|d| d.weights.clone())
            .chain(dict_model.iter().map(|d| d.weights.clone()))
            .find(|w| w.iter().any(|&x| x != 0));
        if let Some(mut w) = donor {
            while w.last() == Some(&0) {
                w.pop();
            }
            let fit = |len: usize| -> Vec<i32> {
                let mut v = w.clone();
                v.resize(len, 0);
                v
            };
            for d in char_ngram_model.iter_mut() {
                if rng.chance(1, 2) {
                    d.weights = fit(d.weights.len());
                }
            }
            for d in dict_model.iter_mut() {
                if rng.chance(1, 2) {
                    d.weights = fit(d.weights.len());
                }
            }
        }
    }

    let bias = match rng.below(4) {
        0 => 0,
        1 => rng.range(-3, 3) as i32,
        _ => gen_weight(rng, class),
    };

    // --- tag models
    let with_tags = match opts.tags {
        TagMode::Never => false,
        TagMode::Always => true,
        TagMode::Maybe => rng.chance(1, 2),
    };
    let mut tag_models = vec![];
    if with_tags {
        let mut tokens: BTreeSet<Vec<char>> = BTreeSet::new();
        let n_tok = rng.urange(if opts.tags == TagMode::Always { 1 } else { 0 }, if opts.tiny { 2 } else { 5 });
        for _ in 0..n_tok {
            tokens.insert(substrings(rng, &texts, 3));
        }
        if long_word && rng.chance(1, 2) {
            // a token of 64 or more characters
            let t = texts[long_idx].clone();
            let len = *rng.pick(&[63usize, 64, 65, 100]);
            let st = rng.below(t.len() - len + 1);
            tokens.insert(t[st..st + len].to_vec());
        }
        let tclass = if class == WClass::Full && rng.chance(1, 2) { WClass::Full } else { WClass::Tiny };
        for tok in tokens {
            let n_cat = rng.weighted(&[1, 4, 4, 2]);
            let mut tags: Vec<Vec<String>> = vec![];
            for _ in 0..n_cat {
                let n_cand = match rng.weighted(&[1, 3, 5, 3, 2, 1]) {
                    5 => rng.urange(5, 9),
                    k => k,
                };
                let mut names: Vec<&str> = TAG_NAMES.to_vec();
                rng.shuffle(&mut names);
                tags.push(names[..n_cand.min(names.len())].iter().map(|s| s.to_string()).collect());
            }
            let n_class: usize = tags.iter().map(|c| if c.len() >= 2 { c.len() } else { 0 }).sum();
            let mut cset: BTreeSet<Vec<char>> = BTreeSet::new();
            for _ in 0..rng.below(if opts.tiny { 3 } else { 6 }) {
                let g = substrings(rng, &texts, 5);
                if rng.chance(1, 3) {
                    for j in 1..g.len() {
                        cset.insert(g[j..].to_vec());
                    }
                }
                cset.insert(g);
            }
            let mut tset: BTreeSet<Vec<u8>> = BTreeSet::new();
            for _ in 0..rng.below(if opts.tiny { 3 } else { 5 }) {
                let g: Vec<u8> = substrings(rng, &types, 5).iter().map(|&c| c as u8).collect();
                if rng.chance(1, 3) {
                    for j in 1..g.len() {
                        tset.insert(g[j..].to_vec());
                    }
                }
                tset.insert(g);
            }
            let rels = |rng: &mut Rng, w: u8| -> Vec<TagWeight> {
                let mut rs: BTreeSet<u8> = BTreeSet::new();
                for _ in 0..rng.urange(1, 3) {
                    let r = match rng.below(4) {
                        0 => 0,
                        1 => w,
                        _ => rng.urange(0, usize::from(w).min(4)) as u8,
                    };
                    rs.insert(r);
                }
                let mut v: Vec<TagWeight> = rs
                    .into_iter()
                    .map(|r| {
                        let mut weights: Vec<i32> = (0..n_class).map(|_| gen_weight(rng, tclass)).collect();
                        // classes at the end of the vector that this n-gram does not vote on
                        if n_class > 0 && rng.chance(1, 4) {
                            let keep = rng.below(n_class);
                            weights[keep..].iter_mut().for_each(|w| *w = 0);
                        }
                        TagWeight { rel_position: r, weights }
                    })
                    .collect();
                // the file format does not prescribe an order of the offsets of one n-gram
                if rng.chance(1, 3) {
                    v.reverse();
                }
                v
            };
            let char_ngram_model = cset
                .iter()
                .map(|g| TagNgramData { ngram: g.iter().collect::<String>(), weights: rels(rng, wc) })
                .collect();
            let type_ngram_model =
                tset.iter().map(|g| TagNgramData { ngram: g.clone(), weights: rels(rng, wt) }).collect();
            tag_models.push(TagModel {
                token: tok.iter().collect(),
                tags,
                char_ngram_model,
                type_ngram_model,
                bias: match rng.below(8) {
                    0 => vec![0; n_class],
                    1 if n_class > 1 => {
                        let mut b: Vec<i32> = (0..n_class).map(|_| gen_weight(rng, tclass)).collect();
                        let keep = rng.urange(1, n_class - 1);
                        b[keep..].iter_mut().for_each(|w| *w = 0);
                        b
                    }
                    _ => (0..n_class).map(|_| gen_weight(rng, tclass)).collect(),
                },
            });
        }
        // rare: a candidate whose score is a 32-bit extreme (no n-gram touches that model, so no sum can overflow)
        if rng.chance(1, 25) {
            if let Some(tm) = tag_models.iter_mut().find(|t| t.bias.len() >= 2) {
                tm.char_ngram_model.clear();
                tm.type_ngram_model.clear();
                let j = rng.below(tm.bias.len());
                tm.bias[j] = *rng.pick(&[i32::MIN, i32::MAX, i32::MIN + 1]);
            }
        }
        rng.shuffle(&mut tag_models);
    }

    Case {
        model: ModelData {
            char_ngram_model,
            type_ngram_model,
            dict_model,
            bias,
            char_window_size: wc,
            type_window_size: wt,
            tag_models,
        },
        texts,
        weight_class,
    }
}

/// Random boundary label vector. 0 = not a boundary, 1 = word boundary, 2 = unknown.
pub fn gen_labels(rng: &mut Rng, n: usize, unknown_weight: u32) -> Vec<u8> {
    (0..n)
        .map(|_| rng.weighted(&[10, 10, unknown_weight]) as u8)
        .collect()
}

/// Structured case: nested dictionary words P ⊃ S1 ⊃ S2 (each a suffix of the previous one) where S1
/// cancels S2 exactly at every position; returns the case and the index of S1 in the dictionary.
pub fn cancelling_case(rng: &mut Rng) -> (Case, usize) {
    let alpha = crate::text::alphabet(rng, 6, crate::text::Flavor::Plain);
    let s2: Vec<char> = (0..rng.urange(1, 2)).map(|_| *rng.pick(&alpha)).collect();
    let mut s1 = vec![*rng.pick(&alpha)];
    s1.extend(&s2);
    let mut p = vec![*rng.pick(&alpha)];
    if rng.chance(1, 3) {
        p.push(*rng.pick(&alpha));
    }
    p.extend(&s1);
    let w2: Vec<i32> = (0..s2.len() + 1).map(|_| rng.range(-40, 40) as i32).map(|w| if w == 0 { 7 } else { w }).collect();
    let mut w1 = vec![0i32];
    w1.extend(w2.iter().map(|w| -w));
    let wp: Vec<i32> = (0..p.len() + 1).map(|_| rng.range(-9, 9) as i32).collect();
    let rec = |w: &[char], ws: Vec<i32>| WordWeightRecord { word: w.iter().collect(), weights: ws, comment: String::new() };
    let mut dict = vec![(1u8, rec(&s1, w1)), (2, rec(&s2, w2)), (0, rec(&p, wp))];
    if rng.chance(1, 2) {
        // an unrelated word keeps pattern ids from being trivially ordered
        let other: Vec<char> = vec![*rng.pick(&alpha), *rng.pick(&alpha), *rng.pick(&alpha)];
        if other != p && other != s1 && other != s2 {
            dict.push((3, rec(&other, vec![1, -1, 2, -2])));
        }
    }
    rng.shuffle(&mut dict);
    let s1_at = dict.iter().position(|d| d.0 == 1).unwrap();
    let model = ModelData {
        dict_model: dict.into_iter().map(|d| d.1).collect(),
        type_ngram_model: vec![NgramData { ngram: vec![crate::text::ctype(alpha[0])], weights: vec![1, -2] }],
        bias: rng.range(-3, 3) as i32,
        char_window_size: rng.urange(1, 3) as u8,
        type_window_size: 1,
        ..ModelData::default()
    };
    let mut texts = vec![p.clone(), s1.clone()];
    let mut t = vec![*rng.pick(&alpha)];
    t.extend(&p);
    t.push(*rng.pick(&alpha));
    t.extend(&s1);
    t.extend(&s2);
    texts.push(t);
    texts.push(text::text_from(rng, &alpha, 12));
    (Case { model, texts, weight_class: "cancelling" }, s1_at)
}
