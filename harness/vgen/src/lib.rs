//! Generators, reference oracles and the bincode mirror of the model format.
//! Depends on bincode only — NOT on vaporetto: the oracle shares no code with the system under test.

pub mod feat;
pub mod fmt;
pub mod gen;
pub mod json;
pub mod kytea;
pub mod mirror;
pub mod norm;
pub mod oracle;
pub mod rng;
pub mod text;
