//! Bincode mirror of vaporetto's model file format.
//!
//! `Model::new` is crate-private, so models are built through the public file format: these
//! structs mirror `ModelData` field by field, are encoded with bincode's standard configuration,
//! prefixed with the magic and handed to `Model::read_slice` / `Model::read`. The same mirror is
//! the white-box reader of models produced by the trainer, the KyTea converter and the model tool.

use bincode::{Decode, Encode};

pub const MODEL_MAGIC: &[u8] = b"VaporettoTokenizer 0.5.0\n";

#[derive(Clone, Debug, PartialEq, Eq, Decode, Encode)]
pub struct NgramData<T> {
    pub ngram: T,
    pub weights: Vec<i32>,
}

#[derive(Clone, Debug, PartialEq, Eq, Decode, Encode)]
pub struct TagWeight {
    pub rel_position: u8,
    pub weights: Vec<i32>,
}

#[derive(Clone, Debug, PartialEq, Eq, Decode, Encode)]
pub struct TagNgramData<T> {
    pub ngram: T,
    pub weights: Vec<TagWeight>,
}

#[derive(Clone, Debug, PartialEq, Eq, Decode, Encode)]
pub struct WordWeightRecord {
    pub word: String,
    pub weights: Vec<i32>,
    pub comment: String,
}

#[derive(Clone, Debug, PartialEq, Eq, Decode, Encode)]
pub struct TagModel {
    pub token: String,
    pub tags: Vec<Vec<String>>,
    pub char_ngram_model: Vec<TagNgramData<String>>,
    pub type_ngram_model: Vec<TagNgramData<Vec<u8>>>,
    pub bias: Vec<i32>,
}

#[derive(Clone, Debug, PartialEq, Eq, Decode, Encode, Default)]
pub struct ModelData {
    pub char_ngram_model: Vec<NgramData<String>>,
    pub type_ngram_model: Vec<NgramData<Vec<u8>>>,
    pub dict_model: Vec<WordWeightRecord>,
    pub bias: i32,
    pub char_window_size: u8,
    pub type_window_size: u8,
    pub tag_models: Vec<TagModel>,
}

impl ModelData {
    pub fn to_bytes(&self) -> Vec<u8> {
        let mut out = MODEL_MAGIC.to_vec();
        let body = bincode::encode_to_vec(self, bincode::config::standard()).expect("encode");
        out.extend_from_slice(&body);
        out
    }

    /// Decodes a model file; returns the model and the number of bytes consumed.
    pub fn from_bytes(bytes: &[u8]) -> Result<(Self, usize), String> {
        if bytes.len() < MODEL_MAGIC.len() || &bytes[..MODEL_MAGIC.len()] != MODEL_MAGIC {
            return Err("bad magic".into());
        }
        let (m, n): (Self, usize) =
            bincode::decode_from_slice(&bytes[MODEL_MAGIC.len()..], bincode::config::standard())
                .map_err(|e| format!("{e}"))?;
        Ok((m, n + MODEL_MAGIC.len()))
    }

    pub fn n_classes(tm: &TagModel) -> usize {
        tm.tags
            .iter()
            .map(|c| if c.len() >= 2 { c.len() } else { 0 })
            .sum()
    }

    pub fn n_tags(&self) -> usize {
        self.tag_models.iter().map(|t| t.tags.len()).max().unwrap_or(0)
    }

    /// Short human-readable summary for samples.
    pub fn summary(&self) -> String {
        format!(
            "Wc={} Wt={} bias={} char_ngrams={} type_ngrams={} dict={} tag_models={}",
            self.char_window_size,
            self.type_window_size,
            self.bias,
            self.char_ngram_model.len(),
            self.type_ngram_model.len(),
            self.dict_model.len(),
            self.tag_models.len()
        )
    }
}
