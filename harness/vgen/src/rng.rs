//! Deterministic PRNG (SplitMix64). Identical streams in every build, under Miri and in every
//! feature configuration.

#[derive(Clone, Debug)]
pub struct Rng(pub u64);

pub fn mix(mut x: u64) -> u64 {
    x = x.wrapping_add(0x9e37_79b9_7f4a_7c15);
    x = (x ^ (x >> 30)).wrapping_mul(0xbf58_476d_1ce4_e5b9);
    x = (x ^ (x >> 27)).wrapping_mul(0x94d0_49bb_1331_11eb);
    x ^ (x >> 31)
}

/// FNV-1a over bytes: used for case digests and for salting seeds with a property tag.
pub fn fnv(bytes: &[u8]) -> u64 {
    let mut h: u64 = 0xcbf2_9ce4_8422_2325;
    for &b in bytes {
        h ^= u64::from(b);
        h = h.wrapping_mul(0x0000_0100_0000_01b3);
    }
    h
}

/// Seed of case `k` of workload `tag` under global seed `seed`. A case depends on nothing else.
pub fn case_seed(seed: u64, tag: &str, k: u64) -> u64 {
    mix(mix(seed ^ fnv(tag.as_bytes())) ^ mix(k.wrapping_mul(0x2545_f491_4f6c_dd1d)))
}

impl Rng {
    pub fn new(seed: u64) -> Self {
        Rng(mix(seed))
    }
    pub fn next_u64(&mut self) -> u64 {
        self.0 = self.0.wrapping_add(0x9e37_79b9_7f4a_7c15);
        let mut z = self.0;
        z = (z ^ (z >> 30)).wrapping_mul(0xbf58_476d_1ce4_e5b9);
        z = (z ^ (z >> 27)).wrapping_mul(0x94d0_49bb_1331_11eb);
        z ^ (z >> 31)
    }
    /// Uniform in 0..n (n > 0).
    pub fn below(&mut self, n: usize) -> usize {
        debug_assert!(n > 0);
        (self.next_u64() % (n as u64)) as usize
    }
    /// Uniform in lo..=hi.
    pub fn range(&mut self, lo: i64, hi: i64) -> i64 {
        debug_assert!(lo <= hi);
        lo + (self.next_u64() % ((hi - lo + 1) as u64)) as i64
    }
    pub fn urange(&mut self, lo: usize, hi: usize) -> usize {
        self.range(lo as i64, hi as i64) as usize
    }
    /// True with probability num/den.
    pub fn chance(&mut self, num: u32, den: u32) -> bool {
        (self.next_u64() % u64::from(den)) < u64::from(num)
    }
    pub fn pick<'a, T>(&mut self, xs: &'a [T]) -> &'a T {
        &xs[self.below(xs.len())]
    }
    pub fn shuffle<T>(&mut self, xs: &mut [T]) {
        for i in (1..xs.len()).rev() {
            let j = self.below(i + 1);
            xs.swap(i, j);
        }
    }
    /// Index drawn according to integer weights.
    pub fn weighted(&mut self, ws: &[u32]) -> usize {
        let total: u32 = ws.iter().sum();
        let mut x = (self.next_u64() % u64::from(total)) as u32;
        for (i, &w) in ws.iter().enumerate() {
            if x < w {
                return i;
            }
            x -= w;
        }
        ws.len() - 1
    }
    pub fn fork(&mut self) -> Rng {
        Rng::new(self.next_u64())
    }
}
