//! Character types (independent transcription of the documented ranges) and text generators.

use crate::rng::Rng;

pub const DIGIT: u8 = 1;
pub const ROMAN: u8 = 2;
pub const HIRAGANA: u8 = 3;
pub const KATAKANA: u8 = 4;
pub const KANJI: u8 = 5;
pub const OTHER: u8 = 6;

/// Character type of `c`, transcribed from the documentation of `CharacterType`.
pub fn ctype(c: char) -> u8 {
    let u = c as u32;
    let within = |lo: u32, hi: u32| lo <= u && u <= hi;
    if within(0x30, 0x39) || within(0xFF10, 0xFF19) {
        DIGIT
    } else if within(0x41, 0x5A) || within(0x61, 0x7A) || within(0xFF21, 0xFF3A) || within(0xFF41, 0xFF5A) {
        ROMAN
    } else if within(0x3040, 0x3096) {
        HIRAGANA
    } else if within(0x30A0, 0x30FA) || within(0x30FC, 0x30FF) || within(0xFF66, 0xFF9F) {
        KATAKANA
    } else if within(0x3400, 0x4DBF)
        || within(0x4E00, 0x9FFF)
        || within(0xF900, 0xFAFF)
        || within(0x20000, 0x2A6DF)
        || within(0x2A700, 0x2B73F)
        || within(0x2B740, 0x2B81F)
        || within(0x2B820, 0x2CEAF)
        || within(0x2F800, 0x2FA1F)
    {
        KANJI
    } else {
        OTHER
    }
}

pub fn ctypes(chars: &[char]) -> Vec<u8> {
    chars.iter().map(|&c| ctype(c)).collect()
}

/// Pools of characters per type, covering 1- to 4-byte encodings, the delimiters of the text
/// formats, line breaks, grapheme-cluster material and keys of the normaliser table.
pub const POOL_DIGIT: &[char] = &['0', '7', '9', '０', '５'];
pub const POOL_ROMAN: &[char] = &['a', 'b', 'Z', 'ａ', 'Ｚ', 'x', 'z', 'A'];
pub const POOL_HIRAGANA: &[char] = &['あ', 'い', 'の', 'は', 'ぁ', 'が', 'ぜ', 'ぼ'];
pub const POOL_KATAKANA: &[char] = &['ア', 'イ', 'ー', 'ｱ', 'ﾟ', 'ヴ'];
pub const POOL_KANJI: &[char] = &['人', '地', '球', '火', '𠮷', '𪜈', '㐀', '豈', '一', '中', '上'];
pub const POOL_OTHER: &[char] = &[
    ' ', '/', '\\', '-', '|', '。', 'é', 'π', '€', '\r', '\n', '\u{200d}', '👨', '👩', '🇯', '🇵',
    '\u{3099}', '\u{0301}', '.', ',', '(', '｢', '～', '\t', '\u{7f}', '\u{10ffff}', '"', '\'', '\u{b}', '\u{c}', '\u{85}', '\u{2028}', '\u{2029}', '\u{3000}',
    '\u{a0}', '\u{1c}', '\u{1}', '\u{feff}',
];
/// Characters that are harmless in every text format (no delimiter, no escape, no line break).
pub const POOL_PLAIN_OTHER: &[char] = &['。', 'é', 'π', '€', '👨', '\u{3099}', '.', ',', '～', '"'];

pub fn pool(t: u8) -> &'static [char] {
    match t {
        DIGIT => POOL_DIGIT,
        ROMAN => POOL_ROMAN,
        HIRAGANA => POOL_HIRAGANA,
        KATAKANA => POOL_KATAKANA,
        KANJI => POOL_KANJI,
        _ => POOL_OTHER,
    }
}

#[derive(Clone, Copy, Debug, PartialEq, Eq)]
pub enum Flavor {
    /// Any character of the pools except NUL.
    Any,
    /// No CR/LF (a "line" of a line-oriented tool).
    Line,
    /// No delimiter / escape / line-break characters at all.
    Plain,
}

/// Draws a small alphabet (so that substrings repeat and patterns occur several times).
pub fn alphabet(rng: &mut Rng, size: usize, flavor: Flavor) -> Vec<char> {
    let mut out: Vec<char> = vec![];
    let mut guard = 0;
    while out.len() < size && guard < 1000 {
        guard += 1;
        let t = [DIGIT, ROMAN, HIRAGANA, KATAKANA, KANJI, OTHER, OTHER, KANJI, HIRAGANA][rng.below(9)];
        let p = if t == OTHER && flavor == Flavor::Plain { POOL_PLAIN_OTHER } else { pool(t) };
        let c = *rng.pick(p);
        if flavor == Flavor::Line && (c == '\r' || c == '\n') {
            continue;
        }
        if !out.contains(&c) {
            out.push(c);
        }
    }
    out
}

/// Alphabet biased towards keys of the normaliser table (ASCII keys, and the 3-byte keys whose
/// image has the same UTF-8 width or another character type), mixed with kana / kanji.
pub fn alphabet_norm_heavy(rng: &mut Rng, size: usize, ascii_keys: bool) -> Vec<char> {
    const SAME_WIDTH_KEYS: &[char] = &['｢', '｣', '～', '－', '､', '―', '･', '─', '–', '｡'];
    const ASCII_KEYS: &[char] = &['a', 'Z', '0', '9', '(', '-', '.', '/', ',', '%', '?', '"', '\'', '+', ':', '!', '&', '*', '@', '=', '_', '<', '['];
    const PLAIN: &[char] = &['ア', 'コ', 'ヒ', 'ー', 'あ', 'の', '人', '火', '。', '・', 'ｱ', '７'];
    let mut out: Vec<char> = vec![];
    let mut guard = 0;
    while out.len() < size && guard < 1000 {
        guard += 1;
        let c = match rng.below(3) {
            0 => *rng.pick(SAME_WIDTH_KEYS),
            1 if ascii_keys => *rng.pick(ASCII_KEYS),
            _ => *rng.pick(PLAIN),
        };
        if !out.contains(&c) {
            out.push(c);
        }
    }
    out
}

/// Length distribution: many short texts, some around typical windows, a tail of long ones.
pub fn text_len(rng: &mut Rng, max_len: usize) -> usize {
    let n = match rng.weighted(&[8, 8, 30, 30, 16, 6, 2]) {
        0 => 1,
        1 => 2,
        2 => rng.urange(3, 6),
        3 => rng.urange(7, 16),
        4 => rng.urange(17, 60),
        5 => rng.urange(61, 300),
        _ => rng.urange(301, 2000),
    };
    n.min(max_len).max(1)
}

pub fn text_from(rng: &mut Rng, alpha: &[char], len: usize) -> Vec<char> {
    let mut out = Vec::with_capacity(len);
    // runs of the same character and repeated bigrams make overlapping matches likely
    while out.len() < len {
        match rng.below(10) {
            0 if !out.is_empty() => {
                let c = *out.last().unwrap();
                out.push(c);
            }
            1 if out.len() >= 2 => {
                let a = out[out.len() - 2];
                out.push(a);
            }
            _ => out.push(*rng.pick(alpha)),
        }
    }
    out.truncate(len);
    out
}

pub fn to_string(chars: &[char]) -> String {
    chars.iter().collect()
}

/// Hostile string for parsers: any Unicode incl. NUL, escapes and delimiters with high density.
pub fn hostile_string(rng: &mut Rng, max_len: usize) -> String {
    const DENSE: &[char] = &[' ', '/', '\\', '-', '|', '\0', 'a', 'あ', '𠮷', '\n', 'é', 'ア', '1', '\u{feff}', '\u{3000}', '一', '中', 'Ｏ', 'ぜ', 'ぼ', '＠'];
    let n = rng.below(max_len + 1);
    let mut s = String::new();
    for _ in 0..n {
        if rng.chance(4, 5) {
            s.push(*rng.pick(DENSE));
        } else {
            // arbitrary scalar value
            loop {
                let u = (rng.next_u64() % 0x11_0000) as u32;
                if let Some(c) = char::from_u32(u) {
                    s.push(c);
                    break;
                }
            }
        }
    }
    s
}
