//! Feature-matrix worker (C13, and C18 "under every feature configuration").
//!
//! Same command line as vmon. Every build runs the identical seeded workload, checks itself
//! against the reference scorer / tagger and writes a trace (`<events>.trace`): one line per
//! (case, text) with digests of scores, boundaries and — when tag prediction is compiled in — tags
//! and tag scores. The driver compares the traces of all builds.

#[path = "../../vmon/src/ctx.rs"]
mod ctx;
// the sentence monitors of vmon, compiled against THIS feature configuration of vaporetto
#[path = "../../vmon/src/p_sentence.rs"]
mod p_sentence;
#[path = "../../vmon/src/sut.rs"]
mod sut;

use std::io::Write;

use vaporetto::{CharacterBoundary, Model, Predictor, Sentence};
use vgen::gen::{gen_case, gen_labels, GenOpts, TagMode};
use vgen::json::{clip, J};
use vgen::oracle::*;
use vgen::rng::{case_seed, fnv, Rng};
use vgen::text::{ctypes, to_string};

use ctx::{guard, panic_site, Ctx};

fn label_of(b: CharacterBoundary) -> u8 {
    match b {
        CharacterBoundary::NotWordBoundary => 0,
        CharacterBoundary::WordBoundary => 1,
        CharacterBoundary::Unknown => 2,
    }
}

fn features() -> String {
    let mut v = vec![];
    if cfg!(feature = "std") {
        v.push("std");
    }
    if cfg!(feature = "cache-type-score") {
        v.push("cache-type-score");
    }
    if cfg!(feature = "fix-weight-length") {
        v.push("fix-weight-length");
    }
    if cfg!(feature = "tag-prediction") {
        v.push("tag-prediction");
    }
    if cfg!(feature = "charwise-pma") {
        v.push("charwise-pma");
    }
    if cfg!(feature = "portable-simd") {
        v.push("portable-simd");
    }
    v.join(",")
}

fn main() {
    let args: Vec<String> = std::env::args().collect();
    let mut seed = 1u64;
    let (mut from, mut to) = (0u64, 1u64);
    let mut events = String::new();
    let mut journal: Option<String> = None;
    let mut tier = "quick".to_string();
    let mut scratch = String::new();
    let mut i = 2;
    while i < args.len() {
        let v = args.get(i + 1).cloned().unwrap_or_default();
        match args[i].as_str() {
            "--seed" => seed = v.parse().unwrap(),
            "--from" => from = v.parse().unwrap(),
            "--to" => to = v.parse().unwrap(),
            "--events" => events = v,
            "--journal" => journal = Some(v),
            "--tier" => tier = v,
            "--scratch" => scratch = v,
            _ => {}
        }
        i += 2;
    }
    ctx::install_panic_hook();
    let mut ctx = Ctx::new(&events, journal.as_deref(), seed);
    ctx.tier_thorough = tier == "thorough";
    let workload = args.get(1).cloned().unwrap_or_default();
    if workload != "C13" {
        ctx.note("features", J::s(features()));
        match workload.as_str() {
            "C02x" => p_sentence::run_c02x(&mut ctx, from, to),
            "C02r" => p_sentence::run_c02r(&mut ctx, from, to),
            "C03" => p_sentence::run_c03(&mut ctx, from, to),
            "C04" => p_sentence::run_c04(&mut ctx, from, to),
            "C05x" => p_sentence::run_c05x(&mut ctx, from, to),
            "C05r" => p_sentence::run_c05r(&mut ctx, from, to),
            "C05h" => p_sentence::run_c05h(&mut ctx, from, to),
            "C08f" => p_sentence::run_c08f(&mut ctx, from, to),
            "C13m" => trained_models(&mut ctx, from, to, &scratch, &events),
            w => {
                eprintln!("unknown workload {w}");
                std::process::exit(64);
            }
        }
        ctx.finish();
        return;
    }
    let mut trace = std::io::BufWriter::new(std::fs::File::create(format!("{events}.trace")).expect("trace"));
    ctx.note("features", J::s(features()));
    for k in from..to {
        ctx.begin_case(k);
        let mut rng = Rng::new(case_seed(seed, "C13", k));
        let mut o = GenOpts::default();
        o.tags = TagMode::Maybe;
        o.max_text_len = if k % 16 == 0 { 300 } else { 50 };
        let case = gen_case(&mut rng, &o);
        let m = &case.model;
        let bytes = m.to_bytes();
        let r = guard(|| -> Result<Vec<String>, (String, J)> {
            let mut lines = vec![];
            let build = |tags: bool| -> Result<Predictor, (String, J)> {
                let (model, _) = Model::read_slice(&bytes).map_err(|e| ("C13:model_rejected".to_string(), J::s(format!("{e}"))))?;
                Predictor::new(model, tags).map_err(|e| ("C13:predictor_rejected".to_string(), J::s(format!("{e}"))))
            };
            {
                // the model file format does not depend on the feature configuration
                let (model, rest) = Model::read_slice(&bytes).map_err(|e| ("C13:model_rejected".to_string(), J::s(format!("{e}"))))?;
                if !rest.is_empty() {
                    return Err(("C13:model_read_leaves_bytes_in_this_build".into(), J::i(rest.len())));
                }
                let again = model.to_vec().map_err(|e| ("C13:model_to_vec_failed".to_string(), J::s(format!("{e}"))))?;
                if again != bytes {
                    return Err(("C13:model_round_trip_differs_in_this_build".into(), J::obj(vec![("original_len", J::i(bytes.len())), ("reserialised_len", J::i(again.len()))])));
                }
                if Model::read_slice(&bytes[..bytes.len() - 1]).is_ok() {
                    return Err(("C13:truncated_model_accepted_in_this_build".into(), J::i(bytes.len() - 1)));
                }
            }
            let p = build(false)?;
            // serialised twin (every feature set has its own layout: exercises C14's path per build)
            let ser = p.serialize_to_vec().map_err(|e| ("C13:serialize_failed".to_string(), J::s(format!("{e}"))))?;
            let (q, rest) = unsafe { Predictor::deserialize_from_slice_unchecked(&ser) }.map_err(|e| ("C13:deserialize_failed".to_string(), J::s(format!("{e}"))))?;
            if !rest.is_empty() {
                return Err(("C13:deserialize_leaves_bytes_in_this_build".into(), J::i(rest.len())));
            }
            #[cfg(feature = "tag-prediction")]
            let pt = if m.tag_models.is_empty() {
                None
            } else {
                let mut pt = build(true)?;
                pt.store_tag_scores(true);
                Some(pt)
            };
            // the tag-carrying predictor has its own scorer variants: serialised twin of it as well
            #[cfg(feature = "tag-prediction")]
            let mut ptq_bytes = vec![];
            #[cfg(feature = "tag-prediction")]
            let ptq = match pt.as_ref() {
                None => None,
                Some(pt) => {
                    ptq_bytes = pt.serialize_to_vec().map_err(|e| ("C13:serialize_failed(tag predictor)".to_string(), J::s(format!("{e}"))))?;
                    ptq_bytes.extend_from_slice(&[0xAB, 0xCD, 0xEF]);
                    let (mut x, rest) =
                        unsafe { Predictor::deserialize_from_slice_unchecked(&ptq_bytes) }.map_err(|e| ("C13:deserialize_failed(tag predictor)".to_string(), J::s(format!("{e}"))))?;
                    if rest != [0xAB, 0xCD, 0xEF] {
                        return Err(("C13:deserialize_remainder_differs(tag predictor)".into(), J::i(rest.len())));
                    }
                    x.store_tag_scores(true);
                    Some(x)
                }
            };
            for (ti, text) in case.texts.iter().enumerate() {
                let refs = ref_scores(m, text);
                if refs.iter().any(|&s| s.abs() > i64::from(i32::MAX)) {
                    continue;
                }
                let mut s = Sentence::from_raw(to_string(text)).unwrap();
                let start = gen_labels(&mut rng, text.len() - 1, 5);
                for (b, &l) in s.boundaries_mut().iter_mut().zip(&start) {
                    *b = match l {
                        0 => CharacterBoundary::NotWordBoundary,
                        1 => CharacterBoundary::WordBoundary,
                        _ => CharacterBoundary::Unknown,
                    };
                }
                p.predict(&mut s);
                let sc: Vec<i64> = s.boundary_scores().iter().map(|&x| i64::from(x)).collect();
                let lb: Vec<u8> = s.boundaries().iter().map(|&b| label_of(b)).collect();
                if sc != refs {
                    return Err(("C13:scores_differ_from_reference_in_this_build".into(), J::obj(vec![("text", J::s(clip(&to_string(text), 80))), ("expected", J::ints(&refs[..refs.len().min(40)])), ("observed", J::ints(&sc[..sc.len().min(40)]))])));
                }
                if lb != refs.iter().map(|&x| u8::from(x > 0)).collect::<Vec<u8>>() {
                    return Err(("C13:decisions_differ_from_reference_in_this_build".into(), J::s(clip(&to_string(text), 80))));
                }
                let mut s2 = Sentence::from_raw(to_string(text)).unwrap();
                q.predict(&mut s2);
                if s2.boundary_scores() != s.boundary_scores() {
                    return Err(("C13:deserialised_predictor_differs_in_this_build".into(), J::s(clip(&to_string(text), 80))));
                }
                let mut tagdig = 0u64;
                #[cfg(feature = "tag-prediction")]
                if let Some(pt) = pt.as_ref() {
                    let twin = ti % 2 == 1;
                    let pt = if twin { ptq.as_ref().unwrap() } else { pt };
                    let which = if twin { "deserialised_predictor_" } else { "" };
                    let types = ctypes(text);
                    let mut s3 = Sentence::from_raw(to_string(text)).unwrap();
                    pt.predict(&mut s3);
                    if s3.boundary_scores() != s.boundary_scores() {
                        return Err((format!("C13:{which}tag_predictor_scores_differ_in_this_build"), J::s(clip(&to_string(text), 80))));
                    }
                    s3.fill_tags();
                    let n_tags = m.n_tags();
                    let tags: Vec<Option<String>> = s3.tags().iter().map(|t| t.as_ref().map(|c| c.to_string())).collect();
                    let mut want: Vec<Option<String>> = vec![None; text.len() * n_tags];
                    let mut cands_want = vec![];
                    for sp in ref_partition(text.len(), &lb) {
                        let rt = ref_tags(m, text, &types, &sp);
                        for (j, t) in rt.tags.iter().enumerate() {
                            want[(sp.end - 1) * n_tags + j] = t.clone();
                        }
                        cands_want.push(rt.candidates);
                    }
                    if s3.n_tags() != n_tags || tags != want {
                        return Err((format!("C13:{which}tags_differ_from_reference_in_this_build"), J::obj(vec![("text", J::s(clip(&to_string(text), 80))), ("expected", J::s(format!("{:?}", want))), ("observed", J::s(format!("{:?}", tags)))])));
                    }
                    let cands: Vec<Vec<Vec<(String, i64)>>> = s3
                        .iter_tokens()
                        .map(|t| t.tag_candidates().into_iter().map(|c| c.into_iter().map(|(n, s)| (n.to_string(), i64::from(s))).collect()).collect())
                        .collect();
                    if cands != cands_want {
                        return Err((format!("C13:{which}tag_scores_differ_from_reference_in_this_build"), J::s(clip(&to_string(text), 80))));
                    }
                    tagdig = fnv(format!("{:?}{:?}", tags, cands).as_bytes());
                }
                #[cfg(not(feature = "tag-prediction"))]
                {
                    let _ = ctypes(text);
                }
                lines.push(format!("{} {} {:016x} {:016x} {:016x}", k, ti, fnv(format!("{:?}", sc).as_bytes()), fnv(&lb), tagdig));
            }
            Ok(lines)
        });
        #[cfg(feature = "kytea")]
        if k % 8 == 5 {
            kytea_in_this_build(&mut ctx, seed, k);
        }
        ctx.eval(1);
        match r {
            Ok(Ok(lines)) => {
                ctx.count("predictions_traced", lines.len() as u64);
                ctx.flag("cases_with_tag_models", !m.tag_models.is_empty());
                ctx.flag("type_window_up_to_3", m.type_window_size <= 3 && !m.type_ngram_model.is_empty());
                ctx.flag("type_window_above_3", m.type_window_size > 3 && !m.type_ngram_model.is_empty());
                ctx.flag("weight_vectors_longer_than_8", m.char_ngram_model.iter().any(|d| d.weights.len() > 8));
                for l in &lines {
                    let _ = writeln!(trace, "{l}");
                }
                if !lines.is_empty() {
                    ctx.nontrivial(fnv(&bytes) ^ fnv(format!("{:?}", case.texts).as_bytes()));
                }
            }
            Ok(Err((sig, what))) => ctx.violation(&sig, J::obj(vec![("features", J::s(features())), ("what", what), ("model", J::s(m.summary())), ("model_hex", J::hex(&bytes[..bytes.len().min(4096)]))])),
            Err(p) => ctx.violation(&format!("C13:panicked_in_this_build:{}", panic_site(&p)), J::obj(vec![("features", J::s(features())), ("panic", J::s(&p)), ("model", J::s(m.summary())), ("model_hex", J::hex(&bytes[..bytes.len().min(4096)]))])),
        }
        if ctx.want_sample() {
            ctx.sample(J::obj(vec![("features", J::s(features())), ("model", J::s(m.summary())), ("texts", J::A(case.texts.iter().take(3).map(|t| J::s(clip(&to_string(t), 40))).collect()))]));
        }
    }
    let _ = trace.flush();
    ctx.finish();
}

/// A converted KyTea model (incl. files carrying the bogus type byte 0x04, which the converter skips) must
/// score like the reference in every feature configuration.
#[cfg(feature = "kytea")]
fn kytea_in_this_build(ctx: &mut Ctx, seed: u64, k: u64) {
    let mut rng = Rng::new(case_seed(seed, "C13kytea", k));
    let (spec, texts) = vgen::kytea::gen_spec(&mut rng);
    if (spec.char_ngrams.is_empty() || spec.type_ngrams.is_empty()) && !spec.empty_tries_present {
        return;
    }
    let bytes = spec.emit();
    let want = spec.expected();
    let r = guard(|| -> Result<Option<String>, String> {
        let mut cur = std::io::Cursor::new(&bytes);
        let km = vaporetto::KyteaModel::read(&mut cur).map_err(|e| format!("read: {e}"))?;
        let m = Model::try_from(km).map_err(|e| format!("convert: {e}"))?;
        let p = Predictor::new(m, false).map_err(|e| format!("predictor: {e}"))?;
        for t in &texts {
            let refs = ref_scores(&want, t);
            if refs.iter().any(|&s| s.abs() > i64::from(i32::MAX)) {
                continue;
            }
            let mut s = Sentence::from_raw(to_string(t)).unwrap();
            p.predict(&mut s);
            let sc: Vec<i64> = s.boundary_scores().iter().map(|&x| i64::from(x)).collect();
            if sc != refs {
                return Ok(Some(format!("text {:?}: expected {:?}, observed {:?}", clip(&to_string(t), 60), &refs[..refs.len().min(30)], &sc[..sc.len().min(30)])));
            }
        }
        Ok(None)
    });
    ctx.eval(1);
    ctx.count("converted_kytea_models_scored_in_this_build", 1);
    ctx.flag("converted_kytea_models_with_type_byte_0x04", spec.type_ngrams.iter().any(|g| g.0.contains(&'\u{4}')));
    match r {
        Ok(Ok(None)) => {}
        Ok(Ok(Some(what))) => ctx.violation("C13:converted_kytea_model_scores_differ_from_reference_in_this_build", J::obj(vec![("features", J::s(features())), ("what", J::s(&what)), ("file_hex", J::hex(&bytes[..bytes.len().min(4096)]))])),
        Ok(Err(e)) => ctx.violation("C13:kytea_conversion_failed_in_this_build", J::obj(vec![("features", J::s(features())), ("error", J::s(&e)), ("file_hex", J::hex(&bytes[..bytes.len().min(4096)]))])),
        Err(p) => ctx.violation(&format!("C13:panicked_in_this_build:{}", panic_site(&p)), J::obj(vec![("features", J::s(features())), ("panic", J::s(&p)), ("what", J::s("converted KyTea model"))])),
    }
}

/// Models trained by the real trainer (written to `<scratch>/trained-<k>.bin` by vmon's C13t workload,
/// together with their evaluation texts) are analysed in this build; the driver compares the traces.
fn trained_models(ctx: &mut Ctx, from: u64, to: u64, scratch: &str, events: &str) {
    let mut trace = std::io::BufWriter::new(std::fs::File::create(format!("{events}.trace")).expect("trace"));
    for k in from..to {
        ctx.begin_case(k);
        let Ok(blob) = std::fs::read(format!("{scratch}/trained-{k}.bin")) else {
            ctx.count("trained_model_files_missing(training_returned_an_error)", 1);
            continue;
        };
        let rd = |at: &mut usize| -> usize {
            let v = u32::from_le_bytes(blob[*at..*at + 4].try_into().unwrap()) as usize;
            *at += 4;
            v
        };
        let mut at = 0usize;
        let mlen = rd(&mut at);
        let model_bytes = blob[at..at + mlen].to_vec();
        at += mlen;
        let n_texts = rd(&mut at);
        let mut texts = vec![];
        for _ in 0..n_texts {
            let l = rd(&mut at);
            texts.push(String::from_utf8(blob[at..at + l].to_vec()).expect("utf8"));
            at += l;
        }
        let r = guard(|| -> Result<Vec<String>, String> {
            let (model, _) = Model::read_slice(&model_bytes).map_err(|e| format!("{e}"))?;
            let p = Predictor::new(model, false).map_err(|e| format!("{e}"))?;
            let mut lines = vec![];
            for (ti, t) in texts.iter().enumerate() {
                let mut s = Sentence::from_raw(t.clone()).map_err(|e| format!("{e}"))?;
                p.predict(&mut s);
                let lb: Vec<u8> = s.boundaries().iter().map(|&b| label_of(b)).collect();
                lines.push(format!("{} {} {:016x} {:016x} {:016x}", k, ti, fnv(format!("{:?}", s.boundary_scores()).as_bytes()), fnv(&lb), 0u64));
            }
            Ok(lines)
        });
        ctx.eval(1);
        match r {
            Ok(Ok(lines)) => {
                ctx.count("trained_model_predictions_traced", lines.len() as u64);
                for l in &lines {
                    let _ = writeln!(trace, "{l}");
                }
                ctx.nontrivial(fnv(&model_bytes));
            }
            Ok(Err(e)) => ctx.violation("C13:trained_model_rejected_in_this_build", J::obj(vec![("features", J::s(features())), ("error", J::s(&e))])),
            Err(p) => ctx.violation(&format!("C13:panicked_in_this_build:{}", panic_site(&p)), J::obj(vec![("features", J::s(features())), ("panic", J::s(&p)), ("what", J::s("trained model"))])),
        }
    }
    let _ = trace.flush();
}
