#!/bin/sh
# One-off build of every harness flavour from files on disk only (offline).
set -e
cd "$(dirname "$0")"
export CARGO_NET_OFFLINE=true
python3 - <<'PY'
import sys, os
sys.path.insert(0, "lib")
import engine as E
for k in ["mon"]:
    E.build(k)
PY
