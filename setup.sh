#!/bin/sh
# One-off build of every harness flavour used by the quick tier, from files on disk only (offline).
set -e
cd "$(dirname "$0")"
export CARGO_NET_OFFLINE=true
python3 - <<'PY'
import sys
sys.path.insert(0, "lib")
import engine as E
import props as P
for k in ["mon", "bins", "tantivy", "asan", "dbg"]:
    E.build(k)
P.build_many(["feat:" + n for n in P.QUICK_FEATURE_SETS])
E.build_miri()
print("setup ok")
PY
