"""Per-property workload tables: which workloads, which builds, how many cases per tier, which
interaction counters must be non-zero for the run to count as evidence."""

import json
import os

import engine as E

COMMON_ASSUMPTIONS = [
    "rustc/cargo, std's UB-precondition checks (debug-assertions build), bincode's derive for the model mirror",
    "reference oracles in harness/vgen (no code shared with vaporetto); only executions produced by the seeded workload are decided",
]


def sz(tier, quick, thorough):
    return thorough if tier == "thorough" else quick


# ------------------------------------------------------------------ C01
def run_c01(tier, seed, res):
    E.run_workload(res, "mon", "C01", sz(tier, 40000, 1200000), tier, seed)
    if tier == "thorough":
        E.run_workload(res, "asan", "C01", 20000, tier, seed + 1, env=ASAN_ENV)
    # the scorers have cfg-gated alternative implementations (byte-wise automaton, uncached type scorer, variable-length
    # weights): the same reference comparison inside those builds
    names = ["no-charwise", "no-cache"] if tier == "quick" else ["no-charwise", "no-cache", "no-fix", "no-tags", "alloc-only"]
    build_many(["feat:" + x for x in names])
    for x in names:
        sub = E.Results()
        E.run_workload(sub, "feat:" + x, "C13", sz(tier, 2000, 20000), tier, seed, tag="c01-feat-%s" % x, chunks=max(1, E.NCPU // 2))
        for v in sub.violations:
            if "scores_differ" in v["sig"] or "decisions_differ" in v["sig"] or ":abort:" in v["sig"] or "panicked" in v["sig"]:
                v = dict(v)
                v["sig"] = "C01:" + v["sig"].split(":", 1)[1] + "[features=%s]" % x
                res.violations.append(v)
        res.incidents.extend(sub.incidents)
        res.runs.extend(sub.runs)
        res.evals += sub.evals
        res.add_counter("cases_scored_in_builds_with_alternative_scorers", sub.cases)
    return {
        "rule": "case = generated well-formed model (mirror -> Model::read_slice) + 3..8 texts built from a small alphabet so that "
                "patterns occur; every boundary score and decision is compared with the naive reference scorer, for the plain and "
                "(when tag models exist) the tag-carrying predictor, starting from a randomly annotated sentence; a case is "
                "non-trivial iff at least one pattern occurs in one of its texts; distinct = distinct digests of (model bytes, texts)",
        "required": ["char_ngram_occurrences", "type_ngram_occurrences", "dict_word_occurrences",
                     "cases_with_suffix_related_patterns", "cases_with_equal_ngram_and_word",
                     "occurrences_overhanging_left_edge", "occurrences_overhanging_right_edge",
                     "boundaries_with_score_exactly_0", "type_scorer_cached_table(Wt<=3,no_tags)",
                     "type_scorer_automaton(Wt>3)", "models_with_tag_models",
                     "cases_with_weight_vectors_longer_than_8", "cases_with_weight_vectors_up_to_8",
                     "matched_chars_2_bytes", "matched_chars_3_bytes", "matched_chars_4_bytes", "window_ge_9",
                     "texts_longer_than_65535", "sentences_predicted_twice_in_a_row",
                     "cases_with_entry_cancelling_its_suffix_chain", "cases_scored_in_builds_with_alternative_scorers",
                     "predictors_restored_from_their_serialised_form", "default_sentences_predicted_directly"],
    }


ASAN_ENV = {"ASAN_OPTIONS": "halt_on_error=1:abort_on_error=1:detect_leaks=0:allocator_may_return_null=1"}


# ------------------------------------------------------------------ C06
def run_c06(tier, seed, res):
    E.run_workload(res, "mon", "C06", sz(tier, 30000, 1000000), tier, seed)
    # the tags a user of the predict tool sees (order of filters and tag filling in the tool)
    sub = E.Results()
    E.run_workload(sub, "mon", "C20p", sz(tier, 40, 600), tier, seed + 7, extra=cli_extra("C06"), per_case_timeout=30.0, tag="c06-cli")
    for v in sub.violations:
        if "predict_output_differs" in v["sig"] and "predict_tags" in v["sig"]:
            v = dict(v)
            v["sig"] = "C06:predict_tool:" + v["sig"].split(":", 1)[1]
            res.violations.append(v)
    res.incidents.extend(sub.incidents)
    res.runs.extend(sub.runs)
    res.evals += sub.evals
    res.add_counter("predict_tool_streams_with_tag_prediction", sub.counters.get("models_with_tag_models", 0))
    if tier == "thorough":
        E.run_workload(res, "asan", "C06", 20000, tier, seed + 1, env=ASAN_ENV)
    return {
        "rule": "case = generated model with >= 1 tag model + texts; after predict (boundaries kept or overwritten so that modelled "
                "tokens occur) and fill_tags every tag, n_tags and (score storing on) every candidate score is compared with the "
                "reference tagger; non-trivial iff at least one token with a tag model was checked",
        "required": ["sentences_refilled_after_boundary_edit", "predict_tool_streams_with_tag_prediction", "fill_tags_runs_with_unknown_boundaries_present", "models_with_more_than_65536_tag_models", "cases_where_no_character_pattern_occurs_in_any_text", "predictors_restored_from_their_serialised_form", "sentences_reanalysed_by_tagless_tag_predictor", "tokens_with_tag_model", "categories_with_0_candidates", "categories_with_1_candidate",
                     "categories_with_2+_candidates", "tag_ties", "tag_ngram_matched_at_rel_0", "tag_ngram_matched_at_rel_1",
                     "tag_ngram_matched_at_rel_2", "models_with_more_than_8_classes",
                     "tokens_with_candidate_scores_compared", "models_with_empty_char_boundary_model",
                     "cases_with_previous_predictor_on_same_sentence", "models_whose_tag_models_have_no_category",
                     "models_with_empty_type_boundary_model"],
    }


# ------------------------------------------------------------------ C14
def run_c14(tier, seed, res):
    E.run_workload(res, "mon", "C14", sz(tier, 20000, 600000), tier, seed)
    if tier == "thorough":
        E.run_workload(res, "asan", "C14", 10000, tier, seed + 1, env=ASAN_ENV)
    # the serialised layout depends on the feature configuration (scorer variants are cfg-gated): round trips inside other builds
    names = ["no-cache", "alloc-only"] if tier == "quick" else ["no-cache", "alloc-only", "no-fix", "no-charwise", "no-tags"]
    build_many(["feat:" + x for x in names])
    for x in names:
        sub = E.Results()
        E.run_workload(sub, "feat:" + x, "C13", sz(tier, 2000, 20000), tier, seed, tag="c14-feat-%s" % x, chunks=max(1, E.NCPU // 2))
        for v in sub.violations:
            if "serial" in v["sig"] or ":abort:" in v["sig"] or "panicked" in v["sig"]:
                v = dict(v)
                v["sig"] = "C14:" + v["sig"].split(":", 1)[1] + "[features=%s]" % x
                res.violations.append(v)
        res.incidents.extend(sub.incidents)
        res.runs.extend(sub.runs)
        res.evals += sub.evals
        res.add_counter("predictor_round_trips_in_other_feature_builds", sub.cases)
    return {
        "rule": "case = generated model; predictor p (with or without tag prediction) is serialised, random trailing bytes appended, "
                "deserialised into q; remaining slice must equal the trailing bytes; scores/boundaries/tags/tag scores of p and q "
                "are compared on every text and with the reference; one predictor of several tens of MB; plain and tag-carrying predictors are also "
                "round-tripped inside builds with other feature sets (own scorer variants); non-trivial iff a pattern occurs in a text",
        "required": ["char_ngram_occurrences", "type_ngram_occurrences", "dict_word_occurrences",
                     "predictors_with_tag_prediction", "predictors_with_tag_prediction_on_tagless_model", "cases_with_trailing_bytes",
                     "type_scorer_cached_table(Wt<=3,no_tags)", "type_scorer_automaton(Wt>3)",
                     "cases_with_weight_vectors_longer_than_8", "cases_with_weight_vectors_up_to_8",
                     "predictors_serialised_larger_than_16MiB", "predictor_round_trips_in_other_feature_builds",
                     "cases_with_value_equal_weight_vectors_at_different_lengths", "predictors_deserialised_from_odd_buffer_offset",
                     "trailing_bytes_resembling_structured_data", "models_whose_pattern_count_is_a_multiple_of_64"],
    }



# ------------------------------------------------------------------ C02
def run_c02(tier, seed, res):
    nmax = sz(tier, 9, 12)
    E.run_workload(res, "mon", "C02x", 8 * nmax, tier, seed, chunks=8 * nmax)
    E.run_workload(res, "mon", "C02r", sz(tier, 200000, 6000000), tier, seed)
    # losslessness as a user of the predict tool sees it: the surfaces of an output line concatenate to the input line
    sub = E.Results()
    E.run_workload(sub, "mon", "C20p", sz(tier, 40, 600), tier, seed, extra=cli_extra("C02"), per_case_timeout=30.0, tag="c02-cli")
    for v in sub.violations:
        if "unescape" in v["sig"] or "predict_output_differs" in v["sig"] or "crash" in v["sig"] or ":abort:" in v["sig"]:
            v = dict(v)
            v["sig"] = "C02:predict_tool:" + v["sig"].split(":", 1)[1]
            res.violations.append(v)
    res.incidents.extend(sub.incidents)
    res.runs.extend(sub.runs)
    res.evals += sub.evals
    res.add_counter("predict_tool_lines_checked_for_lossless_surfaces", sub.counters.get("lines_checked_by_reference_parser", 0))
    return {
        "rule": "exhaustive part: every label vector in {boundary, no boundary, unknown}^(n-1) for n <= %d x 4 text kinds x with/without "
                "tags (case = one (n, kind, tags) combination); random part: n <= 60 with unknown density up to 60%%; tokens "
                "(start, end, surface, tags) from iter_tokens and the tokenized writer are compared with the reference partition; "
                "non-trivial iff n >= 2; distinct = distinct (text, labels, tags)" % nmax,
        "required": ["vectors_with_2+_consecutive_skipped_segments", "vectors_with_skipped_first_segment",
                     "vectors_with_skipped_final_segment", "vectors_without_unknown", "exhaustive_label_vectors",
                     "sentences_via_from_raw+boundaries_mut", "sentences_via_predict_then_boundaries_mut",
                     "sentences_via_from_partial_annotation", "sentences_via_update_raw_after_text_of_same_shape",
                     "fallback_sentences_after_rejected_update_checked", "sentences_predicted_edited_and_predicted_again",
                     "sentences_longer_than_65535_chars", "sentences_via_from_tokenized_with_redundant_escapes",
                     "predict_tool_lines_checked_for_lossless_surfaces", "texts_starting_with_u_feff",
                     "sentences_with_128_or_more_unknown_boundaries_in_one_segment"],
        "exhaustive": True,
        "extra": {"exhaustive_scope": "all 3^(n-1) label vectors for n = 1..%d (the random part is sampled)" % nmax},
    }


# ------------------------------------------------------------------ C03
def run_c03(tier, seed, res):
    E.run_workload(res, "mon", "C03", sz(tier, 300000, 6000000), tier, seed)
    # token accessors are cfg-gated: the same round trips in builds without tag prediction / with alloc only
    names = ["no-tags", "alloc-only"]
    build_many(["feat:" + x for x in names])
    for x in names:
        E.run_workload(res, "feat:" + x, "C03", sz(tier, 40000, 600000), tier, seed, tag="c03-feat-%s" % x)
        res.add_counter("reduced_feature_configurations_run", 1)
    maxlen = sz(tier, 5, 7)
    n = sum(7 ** l for l in range(maxlen + 1))
    E.run_workload(res, "mon", "C03x", n, tier, seed)
    return {
        "rule": "case = fully segmented sentence over an alphabet dense in space, slash, backslash and multi-byte characters with tags "
                "(incl. interior absent ones) on its tokens, built through from_raw/boundaries_mut/reset_tags/tags_mut; checked: written "
                "text is valid UTF-8 and equals the reference writer, the reference parser and the library parser both recover the sentence; "
                "idempotence on random strings, single-edit mutations of written strings and ALL strings of length <= %d over 7 symbols; "
                "distinct = distinct sentences" % maxlen,
        "required": ["sentences_with_escape_worthy_char_in_text", "sentences_with_tags", "sentences_with_interior_absent_tag",
                     "sentences_with_space_inside_a_tag", "sentences_with_slash_inside_a_tag",
                     "sentences_with_backslash_inside_a_tag", "sentences_with_4_byte_char", "idempotence_inputs_accepted",
                     "idempotence_inputs_rejected", "exhaustive_strings", "reduced_feature_configurations_run"],
    }


# ------------------------------------------------------------------ C04
def run_c04(tier, seed, res):
    E.run_workload(res, "mon", "C04", sz(tier, 300000, 6000000), tier, seed)
    names = ["no-tags", "alloc-only"]
    build_many(["feat:" + x for x in names])
    for x in names:
        E.run_workload(res, "feat:" + x, "C04", sz(tier, 40000, 600000), tier, seed, tag="c04-feat-%s" % x)
        res.add_counter("reduced_feature_configurations_run", 1)
    return {
        "rule": "case = sentence with all three labels and tags on any character, tags drawn from an alphabet containing / - | space and "
                "backslash; the written partial-annotation text is parsed by the reference parser and by the library and must give "
                "back text, labels and tags (modulo trailing absent tags); distinct = distinct sentences",
        "required": ["sentences_with_tags", "sentences_with_unknown_boundary", "sentences_with_space_inside_a_tag",
                     "sentences_with_slash_inside_a_tag", "sentences_with_backslash_inside_a_tag",
                     "sentences_with_dash_inside_a_tag", "sentences_with_pipe_inside_a_tag", "sentences_with_interior_absent_tag",
                     "sentences_with_more_than_255_tag_columns", "special_history_states_round_tripped",
                     "reduced_feature_configurations_run"],
    }


# ------------------------------------------------------------------ C05
def run_c05(tier, seed, res):
    maxlen = sz(tier, 4, 5)
    n = sum(9 ** l for l in range(maxlen + 1))
    E.run_workload(res, "mon", "C05x", n, tier, seed)
    E.run_workload(res, "mon", "C05r", sz(tier, 200000, 4000000), tier, seed)
    E.run_workload(res, "mon", "C05h", sz(tier, 200000, 4000000), tier, seed)
    E.run_workload(res, "mon", "C05p", sz(tier, 30000, 1000000), tier, seed)
    # the sentence type has feature-gated fields: the same monitors run against two reduced feature configurations
    names = ["no-tags", "alloc-only"] if tier == "quick" else ["no-tags", "alloc-only", "no-cache", "no-fix", "no-charwise"]
    build_many(["feat:" + x for x in names])
    for x in names:
        E.run_workload(res, "feat:" + x, "C05x", n, tier, seed, tag="c05x-feat-%s" % x)
        E.run_workload(res, "feat:" + x, "C05r", sz(tier, 40000, 800000), tier, seed, tag="c05r-feat-%s" % x)
        E.run_workload(res, "feat:" + x, "C05h", sz(tier, 40000, 800000), tier, seed, tag="c05h-feat-%s" % x)
        res.add_counter("reduced_feature_configurations_run", 1)
    return {
        "rule": "every string of length <= %d over {a, hiragana a, 4-byte kanji, space, /, backslash, -, |, NUL} and random hostile / valid / "
                "single-edit-mutated strings go through the three constructors and through the three updates on a used sentence; "
                "Ok results are compared with the reference parsers (text, labels, tags modulo trailing absent, types, lengths, no scores, "
                "writers and iterator usable), failed updates with Sentence::default(); histories of 1..6 update_*/reset_tags calls are "
                "compared step by step with a fresh object; histories that also contain predict / fill_tags / filters / direct writes (C08's operation "
                "set) are checked after every update_* against a fresh parse; the string and history workloads are repeated in builds of the crate "
                "without tag-prediction and with alloc only; distinct = distinct input strings / histories" % maxlen,
        "required": ["raw_accepted", "raw_rejected", "tokenized_accepted", "tokenized_rejected", "partial_annotation_accepted",
                     "partial_annotation_rejected", "history_steps", "exhaustive_strings",
                     "updates_checked_after_histories_with_predictors", "reduced_feature_configurations_run",
                     "histories_with_raw_update_after_tagged_state", "scalar_values_typed_through_all_constructors",
                     "updates_on_sentence_already_holding_the_same_text_with_labels", "intermediate_states_read"],
        "exhaustive": True,
        "extra": {"exhaustive_scope": "all strings of length <= %d over the 9-symbol alphabet x 3 parsers, and the character type of every Unicode scalar value through the 3 parsers (random strings and histories are sampled)" % maxlen},
    }



# ------------------------------------------------------------------ C07
def run_c07(tier, seed, res):
    E.run_workload(res, "mon", "C07", sz(tier, 1500, 40000), tier, seed, per_case_timeout=5.0)
    E.run_workload(res, "mon", "C07cli", sz(tier, 48, 600), tier, seed, extra=cli_extra("C07"), per_case_timeout=30.0)
    # the file format must not depend on the feature configuration: model round trip inside reduced builds
    names = ["no-tags", "alloc-only"]
    build_many(["feat:" + x for x in names])
    for x in names:
        sub = E.Results()
        E.run_workload(sub, "feat:" + x, "C13", sz(tier, 2000, 20000), tier, seed, tag="c07-feat-%s" % x, chunks=max(1, E.NCPU // 2))
        for v in sub.violations:
            if "model_" in v["sig"] or ":abort:" in v["sig"]:
                v = dict(v)
                v["sig"] = "C07:" + v["sig"].split(":", 1)[1] + "[features=%s]" % x
                res.violations.append(v)
        res.incidents.extend(sub.incidents)
        res.runs.extend(sub.runs)
        res.evals += sub.evals
        res.add_counter("model_round_trips_in_reduced_feature_builds", sub.cases)
    return {
        "rule": "case = one serialised model (generated via the mirror; case 0 = resources/model.bin): to_vec / write / short-write writer give "
                "identical bytes; read / read_slice / 1..3-byte short reads with Interrupted re-serialise identically and predict like the "
                "reference; read_slice returns exactly the appended bytes; then EVERY proper prefix (both readers), EVERY byte position of an "
                "injected reader fault and writer fault, and EVERY single-byte change of the 25-byte header must yield Err without panic "
                "(3 of 4 models are small enough for complete enumeration; the others and the shipped model use all prefixes < 64 plus 400 sampled points); "
                "the real manipulate_model / convert_kytea_model / train binaries writing their model to /dev/full (every write fails) must not exit 0; "
                "distinct = distinct model byte strings",
        "required": ["prefixes_tried", "prefixes_shorter_than_header", "io_fault_points_tried", "header_mutations_tried",
                     "models_with_tag_models", "models_fully_enumerated", "shipped_model_checked", "large_model_round_trips",
                     "model_round_trips_in_reduced_feature_builds", "models_with_repeated_dictionary_word",
                     "models_with_dictionary_word_longer_than_32767_bytes",
                     "runs_with_failing_output_device:manipulate_model", "runs_with_failing_output_device:convert_kytea_model",
                     "truncated_tool_written_files_offered_to_tools", "models_rewritten_in_place",
                     "highly_compressible_models_loaded_by_predict"],
        "exhaustive": True,
        "extra": {"exhaustive_scope": "per fully enumerated model: all proper prefixes, all reader/writer fault positions, all 25x255 header byte changes"},
    }


# ------------------------------------------------------------------ C08
def run_c08(tier, seed, res):
    E.run_workload(res, "mon", "C08h", sz(tier, 40000, 1500000), tier, seed)
    # the predict tool reuses one sentence object for the whole stream: each output line must be what that line alone gives
    sub = E.Results()
    E.run_workload(sub, "mon", "C20p", sz(tier, 40, 600), tier, seed + 11, extra=cli_extra("C08"), per_case_timeout=30.0, tag="c08-cli")
    for v in sub.violations:
        if "predict_output_differs" in v["sig"] or "unescape" in v["sig"] or "crash" in v["sig"]:
            v = dict(v)
            v["sig"] = "C08:predict_tool:" + v["sig"].split(":", 1)[1]
            res.violations.append(v)
    res.incidents.extend(sub.incidents)
    res.runs.extend(sub.runs)
    res.evals += sub.evals
    res.add_counter("predict_tool_streams_checked_line_by_line", sub.cases)
    # the sentence type has feature-gated fields: annotation-bearing histories inside reduced builds
    names = ["no-tags", "alloc-only"]
    build_many(["feat:" + x for x in names])
    for x in names:
        E.run_workload(res, "feat:" + x, "C08f", sz(tier, 30000, 600000), tier, seed, tag="c08f-feat-%s" % x)
    E.run_workload(res, "mon", "C08t", sz(tier, 800, 20000), tier, seed, extra=["--threads", "16"], chunks=sz(tier, 8, 16), per_case_timeout=20.0)
    n_miri = sz(tier, 32, 640)
    E.run_miri(res, "C08t", n_miri, tier, seed, extra=["--tiny"], procs=n_miri, vary_scheduler_seed=True)
    res.add_counter("miri_scheduler_seeds_used", n_miri)
    if tier == "thorough":
        E.run_workload(res, "tsan", "C08t", 400, tier, seed + 2, extra=["--threads", "8"], chunks=8, env=TSAN_ENV, per_case_timeout=60.0)
    return {
        "rule": "case = random history of 0..8 operations {update_raw ok/failing, update_tokenized, update_partial_annotation, predict with one of "
                "up to 6 predictors from two models (plain / tags / tags+scores), fill_tags, reset_tags(k), the four filters, writes through "
                "boundaries_mut / tags_mut} followed by update_raw(x); predict; [fill_tags]; the complete observable state is compared with a "
                "fresh sentence; every step runs under catch_unwind; schedules: 2..16 threads share one predictor, each reusing its own sentence over a "
                "shuffled text list for several rounds, results compared with a sequential baseline - natively, under Miri's data-race detector with "
                "several scheduler seeds (tiny models) and, thorough tier, under ThreadSanitizer with an instrumented std; the set of interleavings "
                "seen natively is not observable and is not claimed; distinct = distinct (history, final predictor, text) / (model, threads, rounds)",
        "required": ["histories_where_another_predictor_just_analysed_the_final_text", "predict_tool_streams_checked_line_by_line", "histories_with_ascii_raw_then_annotated_multibyte_then_ascii_raw", "histories_ending_on_permutation_of_final_text", "histories_ending_on_final_text_itself_with_labels", "intermediate_states_read", "reduced_build_histories_with_tagged_state_before_final_update", "histories_with_tagged_state_before_final_update", "histories_with_other_predictor_before_final",
                     "histories_with_failed_update_directly_before_final", "final_predictor_with_tags",
                     "final_predictor_storing_scores", "history_ops", "concurrent_predictions", "threads_started",
                     "cases_with_tag_prediction", "histories_with_line_longer_than_4096_chars",
                     "cases_starting_on_a_never_used_predictor", "cases_storing_tag_scores"],
    }


# ------------------------------------------------------------------ C15
def run_c15(tier, seed, res):
    E.run_workload(res, "mon", "C15", sz(tier, 200000, 5000000), tier, seed)
    # the very long sentences once more in an unoptimised build (stack depth per token as a debug build has it)
    for first in ([777] if tier == "quick" else [777, 3777, 6777, 9777]):
        E.run_workload(res, "dbg", "C15", 1, tier, seed, first_case=first, tag="c15-dbg-%d" % first, per_case_timeout=600.0, chunks=1, hang_limit=1200, stall_limit=900)
        res.add_counter("very_long_sentences_filtered_in_unoptimised_build", 1)
    return {
        "rule": "case = sentence (texts with ZWJ sequences, regional indicators, combining marks, Hangul jamo, CR/LF/CRLF, runs of one type; "
                "labels incl. unknown; 0..3 tag slots) x 9 filters (six character types, line breaks, grapheme clusters, pattern tagger with "
                "random rules); after filter: text, types, tag count, every boundary and every tag compared with the reference rule "
                "(grapheme clusters from unicode-segmentation over the whole string); filter applied twice == once; distinct = distinct sentences",
        "required": ["very_long_sentences_filtered_in_unoptimised_build", "sentences_with_rule_for_token_of_63_or_more_chars", "sentences_with_tens_of_thousands_of_skipped_tokens", "fallback_sentences_filtered", "sentences_where_extended_and_legacy_clusters_differ", "sentences_with_empty_string_tag",
                     "sentences_with_multi_char_grapheme_cluster", "sentences_with_cr_or_lf", "sentences_with_unknown_boundary",
                     "sentences_with_tags", "single_character_sentences", "sentences_with_cluster_longer_than_64_bytes",
                     "sentences_with_more_than_32_tag_columns",
                     "filter_changed_something:ConcatGraphemeClustersFilter", "filter_changed_something:SplitLinebreaksFilter",
                     "filter_changed_something:PatternMatchTagger"] +
                    ["filter_changed_something:KyteaWsConstFilter(%s)" % t for t in "DRHTKO"],
    }



# ------------------------------------------------------------------ C09..C12 (trainer; hooks)
def run_c09(tier, seed, res):
    E.run_workload(res, "mon", "C09", sz(tier, 20000, 600000), tier, seed, per_case_timeout=5.0)
    return {
        "rule": "case = (char window, char n, type window, type n in 1..4 drawn independently, 1 in 10 with a window of 0; dictionary with "
                "length bucket 1..5; one of the 8 solvers) x corpus of 2..12 short sentences (tokenized or partially annotated) over a small "
                "alphabet; after training, every boundary score of Predictor::new(trained) on training and fresh sentences is compared with "
                "hook-logged quantised bias + sum of hook-logged quantised weights over the reference extractor's features; every stored "
                "n-gram weight vector must have 2*own_window - n + 1 entries; non-trivial iff a boundary got a non-zero feature weight",
        "required": ["configs_with_char_window_gt_type_window", "configs_with_type_window_gt_char_window",
                     "configs_with_word_longer_than_bucket", "trained_char_ngrams", "trained_type_ngrams",
                     "trained_dict_words_with_nonzero_weight", "boundaries_scored_with_nonzero_feature_weight",
                     "configs_with_window_0", "configs_with_window_of_8_or_more", "evaluation_sentences_predicted_twice",
                     "evaluation_sentences_longer_than_65535", "evaluation_sentences_with_all_six_character_types",
                     "trainings_constructed_so_that_an_ngram_cancels_its_suffix", "trained_models_with_tag_models"] + ["solver_%d" % i for i in range(8)],
    }


def run_c10(tier, seed, res):
    E.run_workload(res, "mon", "C10", sz(tier, 40000, 1500000), tier, seed)
    # the corpus as the train tool reads it from files (LF and CRLF): line terminators are not text
    sub = E.Results()
    E.run_workload(sub, "mon", "C11cli", sz(tier, 48, 600), tier, seed + 3, extra=cli_extra("C10"), per_case_timeout=20.0, tag="c10-cli")
    for v in sub.violations:
        if v["sig"].startswith("C10:"):
            res.violations.append(v)
    res.incidents.extend(sub.incidents)
    res.runs.extend(sub.runs)
    res.evals += sub.evals
    res.add_counter("models_trained_from_crlf_files_inspected", sub.counters.get("models_trained_from_crlf_files_inspected", 0))
    return {
        "rule": "case = corpus mixing fully annotated, partially annotated and unannotated sentences x window / n-gram sizes 0..4 x dictionary; "
                "the examples stored for the learner (read through the verif-hooks accessor after every add_example) must be exactly one per "
                "annotated boundary, in order, labelled by the annotation, with the feature multiset of the reference extractor; "
                "non-trivial iff the corpus has an annotated boundary",
        "required": ["unknown_boundaries_in_corpus", "annotated_boundaries_in_corpus", "examples_with_feature_count_above_1",
                     "configs_with_window_0", "configs_with_n_greater_than_window", "configs_with_dictionary",
                     "sentences_without_any_annotation", "configs_with_window_above_128_and_long_sentence",
                     "sentences_equal_to_the_shortest_dictionary_word", "sentences_with_length_at_multiple_of_256",
                     "boundaries_touched_by_more_than_255_dictionary_occurrences", "models_trained_from_crlf_files_inspected"],
    }


def run_c11(tier, seed, res):
    E.run_workload(res, "mon", "C11", sz(tier, 22000, 704000), tier, seed, per_case_timeout=5.0)
    sub = E.Results()
    E.run_workload(sub, "mon", "C11cli", sz(tier, 48, 1200), tier, seed, extra=cli_extra("C11"), per_case_timeout=20.0)
    # (what the tool reads from CRLF files belongs to C10 and is reported there)
    sub.violations = [v for v in sub.violations if not v["sig"].startswith("C10:") and not v["sig"].startswith("C12:")]
    res.violations.extend(sub.violations)
    res.incidents.extend(sub.incidents)
    res.runs.extend(sub.runs)
    res.evals += sub.evals
    res.cases += sub.cases
    res.digests |= sub.digests
    res.samples.extend(sub.samples)
    for k2, v2 in sub.counters.items():
        res.add_counter(k2, v2)
    return {
        "rule": "case = configuration (windows and n-gram sizes 0..4, bucket 1..5, solver = (case/11) mod 8) x corpus class = case mod 11 "
                "{normal, empty, single sentence, single character, no word boundary, only word boundaries, untagged, partially tagged, "
                "ambiguous tags, partial annotation, all unknown}; Trainer::new/add_example/train, to_vec/write/read, Predictor::new(false|true), "
                "predict, fill_tags and every accessor run under catch_unwind; weights checked against the 16-bit range through the mirror; "
                "every case is non-trivial (an Err from training is a legal outcome and is counted)",
        "required": ["training_returned_model", "training_returned_error", "train_cli_wrote_model", "configs_with_window_of_8_or_more",
                     "cases_with_large_dictionary", "configs_with_type_window_gt_char_window",
                     "configs_with_n_greater_than_window", "configs_with_window_0", "corpora_with_tags",
                     "configs_with_char_window_of_128_or_more", "configs_with_type_window_of_128_or_more",
                     "dictionaries_with_blank_word", "configs_without_char_ngrams_and_with_unseen_dictionary",
                     "corpora_whose_first_line_starts_with_u_feff", "train_cli_runs_on_crlf_files"] +
                    ["solver_%d" % i for i in range(8)] +
                    ["corpus_class_%s" % c for c in ["normal", "empty", "single_sentence", "single_character", "no_word_boundary",
                                                      "only_word_boundaries", "untagged", "partially_tagged", "ambiguous_tags",
                                                      "partial_annotation", "all_unknown"]],
    }


def run_c12(tier, seed, res):
    E.run_workload(res, "mon", "C12", sz(tier, 20000, 600000), tier, seed, per_case_timeout=5.0)
    # the tokens as the train tool hands them to the trainer (normalised form of every corpus line)
    sub = E.Results()
    E.run_workload(sub, "mon", "C11cli", sz(tier, 48, 600), tier, seed + 5, extra=cli_extra("C12"), per_case_timeout=20.0, tag="c12-cli")
    for v in sub.violations:
        if v["sig"].startswith("C12:"):
            res.violations.append(v)
    res.incidents.extend(sub.incidents)
    res.runs.extend(sub.runs)
    res.evals += sub.evals
    res.add_counter("models_trained_with_normalisation_inspected", sub.counters.get("models_trained_with_normalisation_inspected", 0))
    res.add_counter("corpus_lines_of_same_width_normaliser_keys", sub.counters.get("corpus_lines_of_same_width_normaliser_keys", 0))
    return {
        "rule": "case = tagged corpus (1..2 categories, absent tags, per-token preferred tag + noise so that single-tag and ambiguous tokens both "
                "occur, partially annotated sentences, a tag dictionary with tokens absent from the corpus) x n-gram sizes 1..3 x solver; "
                "through the mirror: per token the candidate sets equal the tags observed, no duplicates, score vectors sized to the trainable "
                "candidates; on evaluation sentences with forced boundaries: single tag -> that tag, several -> one of them, unseen -> none; "
                "stored candidate scores = hook-logged quantised biases + weights over the reference tag features; "
                "non-trivial iff an evaluation token with known tags was checked",
        "required": ["tokens_seen_with_tags", "tokens_only_in_tag_dictionary", "categories_with_single_tag",
                     "categories_with_several_tags", "tokens_with_three_ambiguous_categories", "evaluation_tokens_with_known_tags",
                     "candidate_scores_compared_with_learned_classifier", "models_trained_with_normalisation_inspected",
                     "corpus_lines_of_same_width_normaliser_keys", "corpora_without_any_tag"],
    }



# ------------------------------------------------------------------ C17
def run_c17(tier, seed, res):
    E.run_workload(res, "mon", "C17", sz(tier, 6000, 200000), tier, seed, per_case_timeout=5.0)
    E.run_workload(res, "mon", "C17cli", sz(tier, 150, 3000), tier, seed, extra=cli_extra("C17"), per_case_timeout=30.0)
    return {
        "rule": "case = generated KyTea binary file (char map incl. the six type letters and sometimes the bogus type byte 0x04, windows 1..4, "
                "tries for char and type n-grams with reversed goto order and suffix outputs on non-final states, 0..8 dictionaries with "
                "membership masks and bucketed weights, 0..3 tag slots, optional self / sub-word dictionaries, extra stored weights, trailing "
                "bytes); KyteaModel::read -> Model::try_from -> mirror must equal the generator's ground truth and predict like the reference "
                "scorer; every prefix shorter than what the reader consumes must give Err without panic (all prefixes for 1 in 4 files and "
                "for small files; case 0 = resources/kytea-model.bin with all its prefixes); the file is also read through a source that hands out "
                "1..3 bytes per call with interruptions, and the converted model written through a short-write sink; the real convert_kytea_model "
                "binary must store (zstd) exactly the library's conversion, also for models of several hundred kB; "
                "non-trivial iff the file has an n-gram or a word",
        "required": ["prefixes_tried", "files_with_type_byte_0x04", "files_with_several_dictionaries", "files_with_tag_slots",
                     "files_with_word_longer_than_bucket", "files_with_windows_that_differ", "files_with_extra_stored_weights",
                     "char_ngrams_in_files", "type_ngrams_in_files", "dictionary_words_in_files", "shipped_kytea_model_checked",
                     "files_with_every_prefix_enumerated", "files_with_char_ids_above_32767", "files_with_word_of_255_or_more_chars",
                     "tool_conversions_equal_to_library_conversion", "converted_models_larger_than_128KiB",
                     "files_with_present_but_empty_ngram_trie", "files_with_window_of_8_or_more",
                     "files_with_dictionary_weights_summing_beyond_16_bit"],
    }



# ------------------------------------------------------------------ CLI-driving workloads
def cli_extra(tag):
    bins = E.build("bins")
    scratch = os.path.join(E.BUILD, "scratch", tag)
    os.makedirs(scratch, exist_ok=True)
    return ["--bins", bins, "--scratch", scratch]


def run_c19(tier, seed, res):
    E.run_workload(res, "mon", "C19lib", sz(tier, 15000, 500000), tier, seed)
    E.run_workload(res, "mon", "C19tool", sz(tier, 1200, 30000), tier, seed, extra=cli_extra("C19"), per_case_timeout=10.0)
    return {
        "rule": "library: case = generated model + new dictionary (words from the texts, some old words kept); after replace_dictionary the "
                "score change at every boundary must equal contribution(new) - contribution(old) and the mirror of the edited model must equal "
                "the original in every other field; tool: the real manipulate_model binary dumps and re-imports a dictionary whose words contain "
                "commas, quotes, spaces, CR/LF, multi-byte characters, 32-bit weights and arbitrary comments and must reproduce the zstd-decoded "
                "model byte for byte; a CSV row with one weight removed/added must be rejected without a crash; "
                "non-trivial iff a dictionary entry touches a boundary (library) / every tool case",
        "required": ["boundaries_touched_by_old_dictionary", "boundaries_touched_by_new_dictionary", "edits_to_empty_dictionary",
                     "edits_from_empty_dictionary", "words_with_comma_quote_or_newline", "weights_outside_16_bit",
                     "non_empty_comments", "dictionaries_empty", "corrupted_csv_runs", "new_dictionaries_with_repeated_record",
                     "dictionaries_with_repeated_record", "new_dictionaries_with_word_of_8_or_more_chars",
                     "runs_with_dump_and_replace_together", "weights_with_more_than_24_significant_bits",
                     "edits_adding_or_removing_entry_that_cancels_its_suffix", "dumps_over_a_longer_existing_file",
                     "edits_installing_a_million_records"],
    }


def run_c20(tier, seed, res):
    E.run_workload(res, "mon", "C20p", sz(tier, 150, 5000), tier, seed, extra=cli_extra("C20p"), per_case_timeout=30.0)
    E.run_workload(res, "mon", "C20e", sz(tier, 400, 12000), tier, seed, extra=cli_extra("C20e"), per_case_timeout=20.0)
    return {
        "rule": "predict: case = generated model x input stream of 1..12 lines (empty lines, NUL, spaces, slashes, backslashes, half-width, interior CR) "
                "x all 16 subsets of {--no-norm, --predict-tags, --scores, --tag-scores} each with a random --wsconst list; stdout of the real "
                "binary is compared byte for byte with the output computed line by line from library calls on fresh sentences, the tokenised line "
                "itself written by the reference writer from the accessor state (layout: line, "
                "newline, score block, tag-score block; rejected line = empty line without blocks); without blocks every output line is "
                "also parsed by the reference parser and must unescape to the input line; exit 101 / signal = crash. evaluate: generated "
                "tokenized references x {char, word} x {normalised, --no-norm} (+ --predict-tags, --wsconst): counts and P/R/F1 recomputed from "
                "library predictions (word metric by set intersection of (span, tags)); for tagged references without --predict-tags the two "
                "modes are compared with each other on text the normaliser leaves unchanged; distinct = distinct (model, input)",
        "required": ["streams_with_empty_first_line", "streams_with_rejected_line", "models_with_tag_models",
                     "lines_checked_by_reference_parser", "evaluate_char_runs_compared", "evaluate_word_runs_compared",
                     "mode_equivalence_pairs_compared", "references_with_normaliser_keys_sprinkled",
                     "references_repeated_as_width_variant", "reference_sentences_of_white_space_only",
                     "streams_with_crlf_terminators", "streams_with_line_ending_in_cr"] + ["predict_runs_flags_%s" % format(m, "04b") for m in range(16)],
    }



# ------------------------------------------------------------------ C13 (feature matrix)
QUICK_FEATURE_SETS = ["default", "alloc-only", "no-cache", "no-fix", "no-charwise", "no-tags", "simd"]


def _read_traces(tag):
    import glob
    out = {}
    for f in glob.glob(os.path.join(E.BUILD, "run", tag, "*.trace")):
        with open(f) as fh:
            for line in fh:
                p = line.split()
                if len(p) == 5:
                    out[(int(p[0]), int(p[1]))] = (p[2], p[3], p[4])
    return out


def build_many(kinds):
    """Builds several flavours concurrently (each cargo invocation is itself parallel)."""
    import concurrent.futures as cf
    errs = []
    with cf.ThreadPoolExecutor(max_workers=4) as ex:
        futs = {ex.submit(E.build, k): k for k in kinds}
        for f in futs:
            try:
                f.result()
            except E.Inconclusive as e:
                errs.append(str(e))
    if errs:
        raise E.Inconclusive(errs[0])


def run_feature_matrix(res, names, n_cases, tier, seed, sig_prefix="C13"):
    all_sets = dict(E.FEATURE_SETS)
    all_sets.update(E.all_feature_sets())
    build_many(["feat:" + n for n in names])
    traces = {}
    for n in names:
        tag = "feat-%s" % n
        E.run_workload(res, "feat:" + n, "C13", n_cases, tier, seed, tag=tag, chunks=max(1, E.NCPU // 2))
        traces[n] = _read_traces(tag)
    base_name = names[0]
    base = traces[base_name]
    compared = 0
    per_build = {}
    for n in names:
        t = traces[n]
        per_build[n] = {"features": all_sets[n][0], "predictions_traced": len(t)}
        has_tags = "tag-prediction" in all_sets[n][0]
        if n == base_name:
            continue
        for key, (sc, lb, tg) in base.items():
            if key not in t:
                continue   # a violation or abort in that build is reported by its own events
            compared += 1
            sc2, lb2, tg2 = t[key]
            what = None
            if sc != sc2:
                what = "scores"
            elif lb != lb2:
                what = "boundaries"
            elif has_tags and "tag-prediction" in all_sets[base_name][0] and tg != tg2:
                what = "tags"
            if what:
                res.violations.append({
                    "t": "violation", "sig": "%s:%s_differ_between_feature_configurations" % (sig_prefix, what),
                    "case": key[0], "seed": seed, "workload": "C13", "build": "feat:" + n, "extra_args": [],
                    "detail": {"text_index": key[1], "build_a": base_name, "features_a": all_sets[base_name][0],
                               "build_b": n, "features_b": all_sets[n][0], "digests_a": [sc, lb, tg], "digests_b": [sc2, lb2, tg2]},
                })
    res.add_counter("cross_build_trace_comparisons", compared)
    res.add_counter("feature_configurations_run", len(names))
    return per_build


def run_c13(tier, seed, res):
    if tier == "thorough":
        names = ["default"] + sorted(E.all_feature_sets().keys())
        n_cases = 6000
    else:
        names = QUICK_FEATURE_SETS
        n_cases = 4000
    per_build = run_feature_matrix(res, names, n_cases, tier, seed)
    # models produced by the real trainer, analysed by every build; traces compared with the default build's
    scratch = os.path.join(E.BUILD, "scratch", "C13-trained")
    os.makedirs(scratch, exist_ok=True)
    n_tr = sz(tier, 160, 1600)
    E.run_workload(res, "mon", "C13t", n_tr, tier, seed, extra=["--scratch", scratch], per_case_timeout=5.0)
    mtraces = {}
    for n in names:
        tag = "featm-%s" % n
        E.run_workload(res, "feat:" + n, "C13m", n_tr, tier, seed, tag=tag, extra=["--scratch", scratch], chunks=max(1, E.NCPU // 2))
        mtraces[n] = _read_traces(tag)
    base = mtraces[names[0]]
    compared = 0
    for n in names[1:]:
        for key, (sc, lb, _tg) in base.items():
            if key not in mtraces[n]:
                continue
            compared += 1
            sc2, lb2, _ = mtraces[n][key]
            if sc != sc2 or lb != lb2:
                res.violations.append({
                    "t": "violation", "sig": "C13:%s_of_trained_model_differ_between_feature_configurations" % ("scores" if sc != sc2 else "boundaries"),
                    "case": key[0], "seed": seed, "workload": "C13m", "build": "feat:" + n, "extra_args": ["--scratch", scratch],
                    "detail": {"text_index": key[1], "build_a": names[0], "build_b": n, "digests_a": [sc, lb], "digests_b": [sc2, lb2],
                               "note": "the model file is <scratch>/trained-<case>.bin, written by the C13t workload of the same seed"},
                })
    res.add_counter("cross_build_comparisons_of_trained_models", compared)
    return {
        "rule": "the same seeded workload (generated models with/without tag models x texts, as for C01/C06) is executed by one binary per feature "
                "configuration; every build checks scores, decisions, tags, tag scores and its own serialise/deserialise round trip against the "
                "reference and writes a trace of digests; the driver compares every trace with the default build's (tags only among builds with "
                "tag prediction); non-trivial iff a prediction was traced; distinct = distinct (model, texts) digests over all builds",
        "required": ["cross_build_trace_comparisons", "predictions_traced", "cases_with_tag_models", "type_window_up_to_3",
                     "type_window_above_3", "weight_vectors_longer_than_8", "converted_kytea_models_scored_in_this_build",
                     "converted_kytea_models_with_type_byte_0x04", "cross_build_comparisons_of_trained_models",
                     "trained_configs_with_char_window_below_type_window"],
        "extra": {"builds": per_build},
    }



# ------------------------------------------------------------------ C16
def run_c16(tier, seed, res):
    E.run_workload(res, "mon", "C16n", 272, tier, seed, chunks=32)
    E.run_workload(res, "mon", "C16s", sz(tier, 100000, 3000000), tier, seed)
    E.run_workload(res, "tantivy", "C16t", sz(tier, 4000, 150000), tier, seed)
    return {
        "rule": "normaliser: ALL 1 112 064 Unicode scalar values (one character out, idempotent, equal to the transcribed table else identity) "
                "plus random strings (per-character behaviour, character count); token stream: generated models x texts (empty, multi-byte, "
                "CR/LF, half-width, repeated lines, NUL) x random wsconst strings over {D,R,H,T,K,O,G}, tokenizer built from a model or from a "
                "serialised predictor: offsets on character boundaries, tiling 0..len, text == original substring, positions 0,1,2.., breaks "
                "== core pipeline (normalise, predict, line-break filter, configured filters) computed from library calls; "
                "distinct = distinct code-point blocks / strings / (model, texts, wsconst)",
        "required": ["scalar_values_checked", "scalar_values_changed_by_normaliser", "strings_changed_by_normaliser", "tokens_checked",
                     "streams_compared_with_core_pipeline", "texts_empty", "texts_with_cr_or_lf", "texts_changed_by_normaliser",
                     "texts_with_multibyte", "tokenizers_from_serialised_predictor", "wsconst_with_grapheme_filter", "wsconst_empty",
                     "cases_reusing_one_tokenizer_for_all_texts", "texts_with_token_longer_than_65530_bytes"],
        "exhaustive": True,
        "extra": {"exhaustive_scope": "the normaliser is checked on every Unicode scalar value; strings and token streams are sampled"},
    }



# ------------------------------------------------------------------ C18 (unsafe surface under sanitizers)
C18_FEATURE_SETS = ["default", "no-charwise", "no-fix", "no-cache", "no-tags"]
TSAN_ENV = {"TSAN_OPTIONS": "halt_on_error=1:abort_on_error=1:report_signal_unsafe=0"}


def run_c18(tier, seed, res):
    E.run_workload(res, "mon", "C18u", sz(tier, 6000, 150000), tier, seed)
    E.run_workload(res, "asan", "C18u", sz(tier, 2000, 40000), tier, seed + 1, env=ASAN_ENV, per_case_timeout=8.0)
    names = C18_FEATURE_SETS if tier == "quick" else ["default"] + sorted(E.all_feature_sets().keys())
    build_many(["feat:" + n for n in names])
    for n in names:
        # vfeat runs in the UB-precondition-checking profile: an abort in any feature configuration is a C18 violation
        sub = E.Results()
        E.run_workload(sub, "feat:" + n, "C13", sz(tier, 1500, 4000), tier, seed, tag="c18-feat-%s" % n, chunks=max(1, E.NCPU // 2))
        for v in sub.violations:
            if ":abort:" in v["sig"] or ":hang:" in v["sig"] or "assertion failed" in json.dumps(v.get("detail", "")):
                v = dict(v)
                v["sig"] = "C18:" + v["sig"].split(":", 1)[1] + "[features=%s]" % n
                res.violations.append(v)
        res.incidents.extend(sub.incidents)
        res.runs.extend(sub.runs)
        res.evals += sub.evals
        res.cases += sub.cases
        res.digests.update(sub.digests)
        res.add_counter("feature_configurations_run_with_ub_checks", 1)
        res.add_counter("predictions_in_feature_builds", sub.counters.get("predictions_traced", 0))
    n_miri = sz(tier, 40, 960)
    E.run_miri(res, "C18u", n_miri, tier, seed, extra=["--tiny"], procs=n_miri)   # one interpreter process per case (costs vary 7..120 s)
    return {
        "rule": "one round = the C01, C06, C14 (predictor serialise/deserialise of self-produced bytes), C15, C02, C03, C04 and C05 workloads on fresh "
                "generated inputs; executed (a) in the release+debug-assertions build where every get_unchecked*/unwrap_unchecked/str::get_unchecked "
                "call checks its actual argument and aborts, and the crate's debug_assert!(is_char_boundary) etc. are live, (b) under AddressSanitizer "
                "on the plain release build (the real unchecked path), (c) in %d feature configurations of the crate built with the same checks, "
                "(d) under Miri with the tiny generator class; written buffers are re-validated as UTF-8; only precondition violations count "
                "here (behavioural mismatches belong to the other properties); distinct = distinct generated inputs over all builds" % len(names),
        "required": ["unsafe_surface_rounds", "char_ngram_occurrences", "type_ngram_occurrences", "dict_word_occurrences",
                     "tokens_with_tag_model", "filter_changed_something:ConcatGraphemeClustersFilter",
                     "filter_changed_something:SplitLinebreaksFilter", "sentences_with_escape_worthy_char_in_text",
                     "predictors_with_tag_prediction", "feature_configurations_run_with_ub_checks", "predictions_in_feature_builds",
                     "history_ops", "accepted_parser_outputs_run_through_all_filters", "texts_longer_than_65535"],
        "assumptions": COMMON_ASSUMPTIONS + [
            "std's UB-precondition checks cover index/range arguments of the unchecked slice/str APIs, not character-boundary-ness (that is the crate's own debug_assert and the behavioural oracles)",
            "ASan sees heap/stack out-of-bounds and use-after-free in the Rust code only (liblinear is not instrumented); Miri runs only the tiny generator class",
        ],
    }


PROPS = {
    "C01": {"level": "exploration", "run": run_c01},
    "C02": {"level": "exploration", "run": run_c02},
    "C03": {"level": "exploration", "run": run_c03},
    "C04": {"level": "exploration", "run": run_c04},
    "C05": {"level": "exploration", "run": run_c05},
    "C06": {"level": "exploration", "run": run_c06},
    "C07": {"level": "fault_enumeration", "run": run_c07},
    "C08": {"level": "exploration", "run": run_c08},
    "C09": {"level": "exploration", "run": run_c09},
    "C10": {"level": "exploration", "run": run_c10},
    "C11": {"level": "exploration", "run": run_c11},
    "C12": {"level": "exploration", "run": run_c12},
    "C13": {"level": "exploration", "run": run_c13},
    "C14": {"level": "exploration", "run": run_c14},
    "C15": {"level": "exploration", "run": run_c15},
    "C16": {"level": "exploration", "run": run_c16},
    "C17": {"level": "exploration", "run": run_c17},
    "C18": {"level": "exploration", "run": run_c18},
    "C19": {"level": "exploration", "run": run_c19},
    "C20": {"level": "exploration", "run": run_c20},
}


def replay(prop, path, res, t0):
    with open(path) as f:
        r = json.load(f)
    build = r.get("build") or "mon"
    env = ASAN_ENV if build == "asan" else None
    E.run_workload(res, build, r["workload"], 1, r.get("tier", "quick"), r["seed"], extra=r.get("extra_args") or [],
                   first_case=r["case"], chunks=1, env=env, tag="replay-%s" % prop)
    sigs = sorted(set(v["sig"] for v in res.violations))
    for s in sigs:
        print("REPLAY signature=%s" % s)
    if sigs:
        print("VIOLATION property=%s replay=%s" % (prop, path))
        return 1
    print("REPLAY property=%s: case %s did not violate" % (prop, r["case"]))
    return 0

DEFAULT_LEVEL_TEXT = ("Held on the K seeded executions described in the evidence file: the real library is run on generated inputs and "
                      "every observable named by the property is compared with an independent executable reference; nothing is proved.")
DEFAULT_LEVEL_NOTE = ("Trusted: rustc/cargo, std's UB-precondition checks, the reference oracles in harness/vgen, bincode's derive for the "
                      "model mirror (re-validated against resources/model.bin). Only inputs the generators produce are decided.")
HOOK_COMMITS = ["e641207"]
NOT_APPLICABLE = {}
