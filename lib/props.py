"""Per-property workload tables: which workloads, which builds, how many cases per tier, which
interaction counters must be non-zero for the run to count as evidence."""

import json
import os

import engine as E

COMMON_ASSUMPTIONS = [
    "rustc/cargo, std's UB-precondition checks (debug-assertions build), bincode's derive for the model mirror",
    "reference oracles in harness/vgen (no code shared with vaporetto); only executions produced by the seeded workload are decided",
]


def sz(tier, quick, thorough):
    return thorough if tier == "thorough" else quick


# ------------------------------------------------------------------ C01
def run_c01(tier, seed, res):
    E.run_workload(res, "mon", "C01", sz(tier, 4000, 240000), tier, seed)
    if tier == "thorough":
        E.run_workload(res, "asan", "C01", 20000, tier, seed + 1, env=ASAN_ENV)
    return {
        "rule": "case = generated well-formed model (mirror -> Model::read_slice) + 3..8 texts built from a small alphabet so that "
                "patterns occur; every boundary score and decision is compared with the naive reference scorer, for the plain and "
                "(when tag models exist) the tag-carrying predictor, starting from a randomly annotated sentence; a case is "
                "non-trivial iff at least one pattern occurs in one of its texts; distinct = distinct digests of (model bytes, texts)",
        "required": ["char_ngram_occurrences", "type_ngram_occurrences", "dict_word_occurrences",
                     "cases_with_suffix_related_patterns", "cases_with_equal_ngram_and_word",
                     "occurrences_overhanging_left_edge", "occurrences_overhanging_right_edge",
                     "boundaries_with_score_exactly_0", "type_scorer_cached_table(Wt<=3,no_tags)",
                     "type_scorer_automaton(Wt>3)", "models_with_tag_models",
                     "cases_with_weight_vectors_longer_than_8", "cases_with_weight_vectors_up_to_8",
                     "matched_chars_2_bytes", "matched_chars_3_bytes", "matched_chars_4_bytes", "window_ge_9"],
    }


ASAN_ENV = {"ASAN_OPTIONS": "halt_on_error=1:abort_on_error=1:detect_leaks=0:allocator_may_return_null=1"}


# ------------------------------------------------------------------ C06
def run_c06(tier, seed, res):
    E.run_workload(res, "mon", "C06", sz(tier, 4000, 240000), tier, seed)
    if tier == "thorough":
        E.run_workload(res, "asan", "C06", 20000, tier, seed + 1, env=ASAN_ENV)
    return {
        "rule": "case = generated model with >= 1 tag model + texts; after predict (boundaries kept or overwritten so that modelled "
                "tokens occur) and fill_tags every tag, n_tags and (score storing on) every candidate score is compared with the "
                "reference tagger; non-trivial iff at least one token with a tag model was checked",
        "required": ["tokens_with_tag_model", "categories_with_0_candidates", "categories_with_1_candidate",
                     "categories_with_2+_candidates", "tag_ties", "tag_ngram_matched_at_rel_0", "tag_ngram_matched_at_rel_1",
                     "tag_ngram_matched_at_rel_2", "models_with_more_than_8_classes",
                     "tokens_with_candidate_scores_compared", "models_with_empty_char_boundary_model",
                     "models_with_empty_type_boundary_model"],
    }


# ------------------------------------------------------------------ C14
def run_c14(tier, seed, res):
    E.run_workload(res, "mon", "C14", sz(tier, 3000, 120000), tier, seed)
    if tier == "thorough":
        E.run_workload(res, "asan", "C14", 10000, tier, seed + 1, env=ASAN_ENV)
    return {
        "rule": "case = generated model; predictor p (with or without tag prediction) is serialised, random trailing bytes appended, "
                "deserialised into q; remaining slice must equal the trailing bytes; scores/boundaries/tags/tag scores of p and q "
                "are compared on every text and with the reference; non-trivial iff a pattern occurs in a text",
        "required": ["char_ngram_occurrences", "type_ngram_occurrences", "dict_word_occurrences",
                     "predictors_with_tag_prediction", "cases_with_trailing_bytes",
                     "type_scorer_cached_table(Wt<=3,no_tags)", "type_scorer_automaton(Wt>3)",
                     "cases_with_weight_vectors_longer_than_8", "cases_with_weight_vectors_up_to_8"],
    }


PROPS = {
    "C01": {"level": "exploration", "run": run_c01},
    "C06": {"level": "exploration", "run": run_c06},
    "C14": {"level": "exploration", "run": run_c14},
}


def replay(prop, path, res, t0):
    with open(path) as f:
        r = json.load(f)
    build = r.get("build") or "mon"
    env = ASAN_ENV if build == "asan" else None
    E.run_workload(res, build, r["workload"], 1, r.get("tier", "quick"), r["seed"], extra=r.get("extra_args") or [],
                   first_case=r["case"], chunks=1, env=env, tag="replay-%s" % prop)
    sigs = sorted(set(v["sig"] for v in res.violations))
    for s in sigs:
        print("REPLAY signature=%s" % s)
    if sigs:
        print("VIOLATION property=%s replay=%s" % (prop, path))
        return 1
    print("REPLAY property=%s: case %s did not violate" % (prop, r["case"]))
    return 0

DEFAULT_LEVEL_TEXT = ("Held on the K seeded executions described in the evidence file: the real library is run on generated inputs and "
                      "every observable named by the property is compared with an independent executable reference; nothing is proved.")
DEFAULT_LEVEL_NOTE = ("Trusted: rustc/cargo, std's UB-precondition checks, the reference oracles in harness/vgen, bincode's derive for the "
                      "model mirror (re-validated against resources/model.bin). Only inputs the generators produce are decided.")
HOOK_COMMITS = ["e641207"]
NOT_APPLICABLE = {}
