#!/usr/bin/env python3
"""Regenerates MANIFEST.json from the property table (kept in one place so it cannot drift)."""
import json, os, sys
sys.path.insert(0, os.path.dirname(os.path.abspath(__file__)))
import props as P

VERIF = os.path.dirname(os.path.dirname(os.path.abspath(__file__)))
ALL = ["C%02d" % i for i in range(1, 21)]
RM = "runtime monitoring: "
UB = " in a build with std's UB-precondition checks, debug assertions and overflow checks (abort / panic = observed event)"
TECHNIQUE = {
    "C01": RM + "seeded models x texts; online monitor compares every boundary score and decision with a naive reference scorer" + UB + "; repeated in builds with the cfg-gated alternative scorers; thorough adds AddressSanitizer",
    "C02": RM + "exhaustive label vectors (n<=9/12) + random and very long sentences through five API histories; online monitor compares tokens and written text with a reference partition" + UB + "; the predict tool is driven and its output lines checked for lossless surfaces",
    "C03": RM + "generated sentences + exhaustive short strings; round-trip monitor (library writer/parser vs. reference writer/parser), history states, reduced feature builds" + UB,
    "C04": RM + "generated partially annotated sentences; round-trip monitor (library writer/parser vs. reference writer/parser), history states, reduced feature builds" + UB,
    "C05": RM + "exhaustive short strings, every Unicode scalar value, hostile strings and call histories through the six parser entry points; state monitor against reference parsers and a fresh object" + UB + "; repeated in reduced feature builds",
    "C06": RM + "seeded tag models x texts; online monitor compares tags and candidate scores with a reference tagger" + UB + "; restored predictors, 65 540 tag models, predict tool output; thorough adds AddressSanitizer",
    "C07": RM + "fault enumeration: every proper prefix, every reader/writer fault position, every single-byte header change on generated model files; real tools on /dev/full and on truncated files; exit status / Err / panic observed",
    "C08": RM + "offline comparison of recorded observable state (reused object after random call histories vs. fresh object); shared predictor under 2-16 threads natively, under Miri's data-race detector with several scheduler seeds, thorough: ThreadSanitizer with instrumented std; predict tool line by line",
    "C09": RM + "real trainer with hooks (quantised weights logged); online monitor recomputes every boundary score from the log with a reference feature extractor" + UB,
    "C10": RM + "hooked trainer: the stored examples are read after every add_example and compared with a reference extractor (labels, feature multisets); train tool on LF/CRLF files",
    "C11": RM + "totality monitor: real trainer over all solvers x corpus classes x windows 0..255, then write/read/predict/fill_tags on the result under catch_unwind" + UB + "; real train and predict binaries (exit status, signals)",
    "C12": RM + "hooked tag trainer: mirror of the trained model compared with the tags observed in the corpus / tag dictionary; candidate scores recomputed from the hook log; train tool with normalisation",
    "C13": RM + "one worker binary per cargo feature set (7 quick / 49 thorough) runs the same seeded workload; each checks itself against the reference and writes a trace; traces compared across builds (generated, converted and trained models)",
    "C14": RM + "serialise -> deserialise (shifted buffers, trailing bytes, 27 MB predictor) and compare every observable of both predictors and the reference" + UB + "; repeated in other feature builds; thorough adds AddressSanitizer",
    "C15": RM + "generated sentences x nine filters; monitor compares the filtered sentence with a reference rule (grapheme clusters from unicode-segmentation over the whole string)" + UB + "; very long sentences also in an unoptimised build",
    "C16": RM + "exhaustive over all Unicode scalar values for the normaliser; token streams of the tantivy adapter checked for tiling / char boundaries / equality with the core pipeline" + UB,
    "C17": RM + "generated KyTea binary files with known ground truth; converted model compared through the mirror and by prediction; fault enumeration over every prefix; short-read sources; real convert tool",
    "C18": "sanitizers: the monitored workloads of C01-C06, C08, C14, C15 run under std's UB-precondition checks, AddressSanitizer, Miri (one interpreter per case) and in 5 (quick) / 49 (thorough) feature configurations; only precondition violations count",
    "C19": RM + "replace_dictionary on generated models: score difference compared with the reference contribution of the two dictionaries; real manipulate_model binary: dump -> replace must reproduce the zstd-decoded model byte for byte",
    "C20": RM + "real predict / evaluate binaries on generated streams x all 16 flag sets; stdout compared byte for byte with a pipeline computed from library calls and a reference writer; metrics recomputed independently",
}
checks = []
for pid in ALL:
    if pid not in P.PROPS:
        continue
    s = P.PROPS[pid]
    checks.append({
        "property_id": pid,
        "quick_cmd": "./check %s --tier quick" % pid,
        "thorough_cmd": "./check %s --tier thorough" % pid,
        "evidence_file": "/verif/evidence/%s.json" % pid,
        "replay_cmd_template": "./check %s --replay {path}" % pid,
        "engine": "vmon",
        "level_claimed": {"category": s["level"], "text": s.get("level_text", P.DEFAULT_LEVEL_TEXT), "design_ref": s.get("design_ref", "DESIGN.md §6 " + pid)},
        "level_note": s.get("level_note", P.DEFAULT_LEVEL_NOTE),
        "technique": TECHNIQUE.get(pid, s.get("technique", "runtime monitoring: seeded workload + reference-model oracle in a UB-precondition-checking build")),
    })
na = [{"property_id": p, "reason": P.NOT_APPLICABLE.get(p, "monitor not built yet in this revision of /verif (work in progress)")} for p in ALL if p not in P.PROPS]
m = {
    "version": 1,
    "setup_cmd": "./setup.sh",
    "hooks": {
        "guard": "cargo feature `verif-hooks` of the vaporetto crate",
        "enable": "harness crates depend on vaporetto with features = [\"train\", \"kytea\", \"verif-hooks\"] (path = /repo/vaporetto)",
        "baseline_off_cmd": "cd /repo && cargo test --workspace --no-fail-fast --offline",
        "source_commits": P.HOOK_COMMITS,
        "add_only": True,
    },
    "engines": [
        {"name": "vmon", "path": "harness/vmon", "serves_properties": [c["property_id"] for c in checks],
         "kind_free_text": "Rust monitor binary (workload generators + reference oracles from harness/vgen) driven by the python sharding/triage driver ./check"},
    ],
    "checks": checks,
    "not_applicable": na,
    "notes": "Technique family: runtime monitoring and sanitizers. Exit codes: 0 held, 1 violated (VIOLATION lines), 2 inconclusive. VERIF_SEED / VERIF_TIER are honoured.",
}
with open(os.path.join(VERIF, "MANIFEST.json"), "w") as f:
    json.dump(m, f, indent=1, ensure_ascii=False)
print("MANIFEST.json: %d checks, %d not_applicable" % (len(checks), len(na)))
