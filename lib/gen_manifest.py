#!/usr/bin/env python3
"""Regenerates MANIFEST.json from the property table (kept in one place so it cannot drift)."""
import json, os, sys
sys.path.insert(0, os.path.dirname(os.path.abspath(__file__)))
import props as P

VERIF = os.path.dirname(os.path.dirname(os.path.abspath(__file__)))
ALL = ["C%02d" % i for i in range(1, 21)]
checks = []
for pid in ALL:
    if pid not in P.PROPS:
        continue
    s = P.PROPS[pid]
    checks.append({
        "property_id": pid,
        "quick_cmd": "./check %s --tier quick" % pid,
        "thorough_cmd": "./check %s --tier thorough" % pid,
        "evidence_file": "/verif/evidence/%s.json" % pid,
        "replay_cmd_template": "./check %s --replay {path}" % pid,
        "engine": "vmon",
        "level_claimed": {"category": s["level"], "text": s.get("level_text", P.DEFAULT_LEVEL_TEXT), "design_ref": s.get("design_ref", "DESIGN.md §6 " + pid)},
        "level_note": s.get("level_note", P.DEFAULT_LEVEL_NOTE),
        "technique": s.get("technique", "runtime monitoring: seeded workload + reference-model oracle in a UB-precondition-checking build"),
    })
na = [{"property_id": p, "reason": P.NOT_APPLICABLE.get(p, "monitor not built yet in this revision of /verif (work in progress)")} for p in ALL if p not in P.PROPS]
m = {
    "version": 1,
    "setup_cmd": "./setup.sh",
    "hooks": {
        "guard": "cargo feature `verif-hooks` of the vaporetto crate",
        "enable": "harness crates depend on vaporetto with features = [\"train\", \"kytea\", \"verif-hooks\"] (path = /repo/vaporetto)",
        "baseline_off_cmd": "cd /repo && cargo test --workspace --no-fail-fast --offline",
        "source_commits": P.HOOK_COMMITS,
        "add_only": True,
    },
    "engines": [
        {"name": "vmon", "path": "harness/vmon", "serves_properties": [c["property_id"] for c in checks],
         "kind_free_text": "Rust monitor binary (workload generators + reference oracles from harness/vgen) driven by the python sharding/triage driver ./check"},
    ],
    "checks": checks,
    "not_applicable": na,
    "notes": "Technique family: runtime monitoring and sanitizers. Exit codes: 0 held, 1 violated (VIOLATION lines), 2 inconclusive. VERIF_SEED / VERIF_TIER are honoured.",
}
with open(os.path.join(VERIF, "MANIFEST.json"), "w") as f:
    json.dump(m, f, indent=1, ensure_ascii=False)
print("MANIFEST.json: %d checks, %d not_applicable" % (len(checks), len(na)))
