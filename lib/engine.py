"""Driver-side machinery: builds, sharded worker runs, abort/timeout triage, aggregation,
known findings, evidence and verdict lines.

Verdicts are three-valued: held (exit 0), violated (exit 1, VIOLATION lines), inconclusive (exit 2).
Timeouts, OOM and harness errors are never mapped to `violated`, with one exception that is decided
on an isolated re-run: a single generated case that still does not finish within HANG_LIMIT_S
seconds when run alone (its peers take milliseconds) is reported as non-termination.
"""

import concurrent.futures as cf
import hashlib
import json
import os
import shutil
import signal
import subprocess
import sys
import time

VERIF = os.path.dirname(os.path.dirname(os.path.abspath(__file__)))
REPO = "/repo"
BUILD = os.path.join(VERIF, ".build")
HARNESS = os.path.join(VERIF, "harness")
REPLAYS = os.path.join(VERIF, "replays")
EVIDENCE = os.path.join(VERIF, "evidence")
NCPU = min(16, os.cpu_count() or 4)
HANG_LIMIT_S = 180

ENV_BASE = dict(os.environ)
ENV_BASE["CARGO_NET_OFFLINE"] = "true"
ENV_BASE.setdefault("CARGO_TERM_COLOR", "never")


class Inconclusive(Exception):
    pass


def log(*a):
    print(*a, file=sys.stderr, flush=True)


def run(cmd, cwd=None, env=None, timeout=None, capture=True):
    e = dict(ENV_BASE)
    if env:
        e.update(env)
    return subprocess.run(
        cmd, cwd=cwd, env=e, timeout=timeout,
        stdout=subprocess.PIPE if capture else None,
        stderr=subprocess.STDOUT if capture else None,
        text=True, errors="replace",
    )


# --------------------------------------------------------------------------- builds

_built = {}

FEATURE_SETS = {
    # name -> (features for vfeat, nightly?)
    # (kytea = the converter; it needs std and is therefore absent from the alloc-only configuration)
    "default": ("std,cache-type-score,fix-weight-length,tag-prediction,charwise-pma,kytea", False),
    "alloc-only": ("alloc", False),
    "no-cache": ("std,fix-weight-length,tag-prediction,charwise-pma,kytea", False),
    "no-fix": ("std,cache-type-score,tag-prediction,charwise-pma,kytea", False),
    "no-charwise": ("std,cache-type-score,fix-weight-length,tag-prediction,kytea", False),
    "no-tags": ("std,cache-type-score,fix-weight-length,charwise-pma,kytea", False),
    "simd": ("std,cache-type-score,fix-weight-length,tag-prediction,charwise-pma,portable-simd,kytea", True),
}


def all_feature_sets():
    """Every subset of the five algorithmic features (+ portable-simd variants on nightly)."""
    base = ["cache-type-score", "fix-weight-length", "charwise-pma", "tag-prediction", "std"]
    out = {}
    for mask in range(32):
        fs = [f for i, f in enumerate(base) if mask >> i & 1]
        if "std" in fs:
            fs = fs + ["kytea"]
        name = "fs%02d" % mask
        out[name] = (",".join(["alloc"] + fs), False)
        if "fix-weight-length" in fs:
            out[name + "s"] = (",".join(["alloc"] + fs + ["portable-simd"]), True)
    return out


def build(kind):
    """Builds (or re-checks) one flavour of the harness against /repo's working tree.
    Returns the path of the produced binary (or directory for 'bins')."""
    if kind in _built:
        return _built[kind]
    t0 = time.time()
    os.makedirs(BUILD, exist_ok=True)
    if kind == "mon":
        td = os.path.join(BUILD, "harness")
        r = run(["cargo", "build", "--profile", "mon", "-p", "vmon"], cwd=HARNESS, env={"CARGO_TARGET_DIR": td})
        out = os.path.join(td, "mon", "vmon")
    elif kind == "dbg":
        # unoptimised build (dev profile): recursion depth, debug assertions and overflow checks as a debug build has them
        td = os.path.join(BUILD, "harness-dbg")
        r = run(["cargo", "build", "-p", "vmon"], cwd=HARNESS, env={"CARGO_TARGET_DIR": td})
        out = os.path.join(td, "debug", "vmon")
    elif kind == "rel":
        td = os.path.join(BUILD, "harness")
        r = run(["cargo", "build", "--release", "-p", "vmon"], cwd=HARNESS, env={"CARGO_TARGET_DIR": td})
        out = os.path.join(td, "release", "vmon")
    elif kind == "tantivy":
        td = os.path.join(BUILD, "harness")
        r = run(["cargo", "build", "--profile", "mon", "-p", "vtantivy"], cwd=HARNESS, env={"CARGO_TARGET_DIR": td})
        out = os.path.join(td, "mon", "vtantivy")
    elif kind == "asan":
        td = os.path.join(BUILD, "asan")
        r = run(
            ["cargo", "+nightly", "build", "--release", "-p", "vmon", "--target", "x86_64-unknown-linux-gnu"],
            cwd=HARNESS,
            env={"CARGO_TARGET_DIR": td, "RUSTFLAGS": "-Zsanitizer=address -Cforce-frame-pointers=yes"},
        )
        out = os.path.join(td, "x86_64-unknown-linux-gnu", "release", "vmon")
    elif kind == "tsan":
        # pure-Rust flavour of vmon (no liblinear, no zstd), std rebuilt with the sanitizer
        td = os.path.join(BUILD, "tsan")
        r = run(
            ["cargo", "+nightly", "build", "--release", "-p", "vmon", "--no-default-features", "--features", "tag-prediction", "-Zbuild-std",
             "--target", "x86_64-unknown-linux-gnu"],
            cwd=HARNESS,
            env={"CARGO_TARGET_DIR": td, "RUSTFLAGS": "-Zsanitizer=thread"},
        )
        out = os.path.join(td, "x86_64-unknown-linux-gnu", "release", "vmon")
    elif kind == "bins":
        td = os.path.join(BUILD, "repo-bins")
        r = run(
            ["cargo", "build", "--release", "--offline", "-p", "predict", "-p", "evaluate", "-p", "manipulate_model",
             "-p", "train", "-p", "convert_kytea_model", "--target-dir", td],
            cwd=REPO,
        )
        out = os.path.join(td, "release")
    elif kind.startswith("feat:"):
        name = kind[5:]
        feats, nightly = ({**FEATURE_SETS, **all_feature_sets()})[name]
        td = os.path.join(BUILD, "feat", name)
        cmd = ["cargo"] + (["+nightly"] if nightly else []) + [
            "build", "--profile", "mon", "-p", "vfeat", "--no-default-features", "--features", feats]
        r = run(cmd, cwd=HARNESS, env={"CARGO_TARGET_DIR": td})
        out = os.path.join(td, "mon", "vfeat")
    else:
        raise ValueError(kind)
    if r.returncode != 0 or not os.path.exists(out):
        tail = "\n".join(r.stdout.splitlines()[-40:])
        raise Inconclusive("build %s failed:\n%s" % (kind, tail))
    log("[build] %s ok (%.1fs)" % (kind, time.time() - t0))
    _built[kind] = out
    return out


# --------------------------------------------------------------------------- worker runs

class Results:
    def __init__(self):
        self.counters = {}
        self.evals = 0
        self.cases = 0
        self.digests = set()
        self.violations = []   # dicts: sig, case, seed, detail, workload, build
        self.samples = []
        self.notes = {}
        self.incidents = []    # inconclusive events
        self.runs = []         # per workload summary

    def add_counter(self, k, v):
        self.counters[k] = self.counters.get(k, 0) + v


def _parse_events(path, res, workload, build_name, extra_args):
    done = False
    if not os.path.exists(path):
        return False
    with open(path, "r", errors="replace") as f:
        for line in f:
            line = line.strip()
            if not line:
                continue
            try:
                ev = json.loads(line)
            except Exception:
                continue
            t = ev.get("t")
            if t == "d":
                res.digests.update(ev["h"])
            elif t == "violation":
                ev["workload"] = workload
                ev["build"] = build_name
                ev["extra_args"] = extra_args
                res.violations.append(ev)
            elif t == "sample":
                if len(res.samples) < 6:
                    s = ev["sample"]
                    if isinstance(s, dict):
                        s = dict(s)
                        s["_workload"] = workload
                        s["_case"] = ev.get("case")
                    res.samples.append(s)
            elif t == "note":
                res.notes.setdefault(ev["key"], []).append(ev["value"])
            elif t == "done":
                done = True
                res.evals += ev["evals"]
                res.cases += ev["cases"]
                for k, v in ev["counters"].items():
                    res.add_counter(k, v)
    return done


def _miri_error_line(path):
    try:
        with open(path, "r", errors="replace") as f:
            for l in f:
                if l.startswith("error:") and "aborting due to" not in l:
                    return l.strip()
    except Exception:
        pass
    return None


def _stderr_tail(path, n=40):
    try:
        with open(path, "r", errors="replace") as f:
            lines = f.read().splitlines()
        return lines[-n:]
    except Exception:
        return []


def _classify_abort(rc, tail):
    text = "\n".join(tail)
    if "unsafe precondition(s) violated" in text:
        for l in tail:
            if "unsafe precondition(s) violated" in l:
                msg = l.split("unsafe precondition(s) violated:")[-1].strip()
                msg = msg.split(" requires")[0].strip()
                return "ub_precondition:" + msg.replace(" ", "_")[:60]
    if "Undefined Behavior" in text or "error: unsupported operation" in text or "error: the evaluated program" in text:
        for l in tail:
            if "error:" in l:
                return "miri:" + l.split("error:")[1].strip().replace(" ", "_")[:90]
        return "miri"
    if "AddressSanitizer" in text:
        kind = "asan"
        for l in tail:
            if "ERROR: AddressSanitizer:" in l:
                kind = "asan:" + l.split("AddressSanitizer:")[1].strip().split(" ")[0]
        return kind
    if "ThreadSanitizer" in text:
        return "tsan:data_race"
    if "stack overflow" in text or "has overflowed its stack" in text:
        return "stack_overflow"
    if "memory allocation of" in text and "failed" in text:
        return "alloc_failure"
    if rc is not None and rc < 0:
        try:
            return "signal:" + signal.Signals(-rc).name
        except Exception:
            return "signal:%d" % -rc
    return "exit:%s" % rc


def _limits(env):
    """Address-space cap for plain workers so that a runaway allocation (a writer looping on a
    broken iterator) ends in an allocation failure instead of exhausting the machine. Sanitizer and
    Miri processes reserve huge virtual ranges and are exempt."""
    if "ASAN_OPTIONS" in env or "TSAN_OPTIONS" in env or "MIRIFLAGS" in env:
        return None

    def f():
        import resource
        lim = 12 * 1024 ** 3
        resource.setrlimit(resource.RLIMIT_AS, (lim, lim))
    return f


_abort_counts = {}
_tripped = {}
_abort_lock = None


def _note_abort(sig):
    global _abort_lock
    import threading
    if _abort_lock is None:
        _abort_lock = threading.Lock()
    with _abort_lock:
        _abort_counts[sig] = _abort_counts.get(sig, 0) + 1
        return _abort_counts[sig]


def _wait_with_stall_watch(p, journal, stall_limit, hard_timeout):
    """Waits for the worker. Returns (rc, reason) with reason in {None, 'stall', 'timeout'}.
    A stall = the case journal did not change for `stall_limit` seconds (one case is stuck);
    the hard timeout is a generous bound on the whole chunk."""
    t0 = time.time()
    last_change = t0
    last = None
    while True:
        try:
            return p.wait(timeout=1.0), None
        except subprocess.TimeoutExpired:
            pass
        now = time.time()
        try:
            with open(journal) as f:
                cur = f.read()
        except Exception:
            cur = None
        if cur != last:
            last = cur
            last_change = now
        reason = None
        if now - last_change > stall_limit:
            reason = "stall"
        elif now - t0 > hard_timeout:
            reason = "timeout"
        if reason:
            p.kill()
            p.wait()
            return None, reason


def _run_chunk(binary, workload, seed, lo, hi, tier, extra, rundir, tag, timeout, env, hang_limit=HANG_LIMIT_S, stall_limit=120):
    """Runs cases lo..hi; on abort/stall isolates the case and continues after it."""
    out = {"events": [], "aborts": [], "incidents": []}
    cur = lo
    attempt = 0
    prefix = binary if isinstance(binary, list) else [binary]
    while cur < hi and attempt < 8:
        if _tripped.get(workload):
            # the same abort/hang was already confirmed several times in this run: verdict decided
            out["skipped_after_repeated_abort"] = hi - cur
            return out
        attempt += 1
        ev = os.path.join(rundir, "%s-%d-%d.jsonl" % (tag, cur, attempt))
        jr = os.path.join(rundir, "%s-%d-%d.journal" % (tag, cur, attempt))
        er = os.path.join(rundir, "%s-%d-%d.stderr" % (tag, cur, attempt))
        cmd = prefix + [workload, "--seed", str(seed), "--from", str(cur), "--to", str(hi),
                        "--events", ev, "--journal", jr, "--tier", tier] + extra
        e = dict(ENV_BASE)
        e.update(env or {})
        with open(er, "w") as errf:
            p = subprocess.Popen(cmd, stdout=errf, stderr=errf, env=e, cwd=rundir, preexec_fn=_limits(e))
            rc, reason = _wait_with_stall_watch(p, jr, stall_limit, timeout)
        out["events"].append(ev)
        if rc == 0:
            return out
        # worker died or was killed: which case?
        try:
            with open(jr) as f:
                k = int(f.read().strip() or cur)
        except Exception:
            k = cur
        tail = _stderr_tail(er)
        if _tripped.get(workload):
            out["skipped_after_repeated_abort"] = hi - k
            return out
        # isolate
        ev1 = os.path.join(rundir, "%s-iso-%d.jsonl" % (tag, k))
        jr1 = os.path.join(rundir, "%s-iso-%d.journal" % (tag, k))
        er1 = os.path.join(rundir, "%s-iso-%d.stderr" % (tag, k))
        cmd1 = prefix + [workload, "--seed", str(seed), "--from", str(k), "--to", str(k + 1),
                         "--events", ev1, "--journal", jr1, "--tier", tier] + extra
        with open(er1, "w") as errf:
            p = subprocess.Popen(cmd1, stdout=errf, stderr=errf, env=e, cwd=rundir, preexec_fn=_limits(e))
            rc1, reason1 = _wait_with_stall_watch(p, jr1, hang_limit, hang_limit)
        tail1 = _stderr_tail(er1)
        sig = None
        if reason1:
            sig = "hang:no_result_in_isolation_within_generous_limit"
            out["aborts"].append({"case": k, "sig": sig, "stderr": tail1, "rc": None})
        elif "MIRIFLAGS" in e and rc1 != 0 and _miri_error_line(er1):
            ml = _miri_error_line(er1)
            sig = "abort:miri:" + ml[6:].strip().replace(" ", "_")[:100]
            out["aborts"].append({"case": k, "sig": sig, "stderr": [ml] + tail1[-25:], "rc": rc1})
        elif rc1 == 101 and tail1 and "HARNESS PANIC" in tail1[-1]:
            # the harness itself panicked outside catch_unwind: a defect of the machinery, never a verdict
            out["incidents"].append({"case": k, "what": "harness panic: " + tail1[-1][:300], "stderr": tail1})
        elif rc1 != 0:
            sig = "abort:" + _classify_abort(rc1, tail1)
            out["aborts"].append({"case": k, "sig": sig, "stderr": tail1, "rc": rc1})
        else:
            # not reproduced in isolation: harness-level incident, not a violation
            out["events"].append(ev1)
            out["incidents"].append({"case": k, "what": "worker %s but the case passes in isolation" %
                                     (("was killed after a " + reason) if reason else ("died (%s)" % _classify_abort(rc, tail))),
                                     "stderr": tail})
        cur = k + 1
        if sig and _note_abort("%s:%s" % (workload, sig)) >= 3:
            _tripped[workload] = True
            # the same failure was already confirmed several times: the verdict is decided,
            # do not spend the isolation budget on every remaining chunk
            out["skipped_after_repeated_abort"] = hi - cur
            return out
    if cur < hi:
        out["incidents"].append({"case": cur, "what": "too many worker deaths in one chunk; rest skipped"})
    return out


def run_workload(res, build_name, workload, n_cases, tier, seed, extra=None, chunks=None,
                 per_case_timeout=0.05, env=None, binary=None, first_case=0, tag=None, hang_limit=HANG_LIMIT_S,
                 env_per_chunk=None, stall_limit=120):
    """Runs `n_cases` cases of `workload` sharded over the cores and aggregates into `res`."""
    extra = list(extra or [])
    binary = binary or build(build_name)
    tag = tag or ("%s-%s" % (workload, build_name.replace(":", "_")))
    rundir = os.path.join(BUILD, "run", tag)
    shutil.rmtree(rundir, ignore_errors=True)
    os.makedirs(rundir, exist_ok=True)
    if chunks is None:
        chunks = min(max(1, n_cases), max(NCPU * 4, n_cases // 5000))
    size = (n_cases + chunks - 1) // chunks
    ranges = []
    lo = first_case
    end = first_case + n_cases
    while lo < end:
        ranges.append((lo, min(end, lo + size)))
        lo += size
    t0 = time.time()
    outs = []
    with cf.ThreadPoolExecutor(max_workers=NCPU) as ex:
        futs = []
        for i, (a, b) in enumerate(ranges):
            timeout = 600 + per_case_timeout * (b - a) * 20
            e_i = dict(env or {})
            if env_per_chunk:
                e_i.update(env_per_chunk(i))
            futs.append(ex.submit(_run_chunk, binary, workload, seed, a, b, tier, extra, rundir,
                                  "c%03d" % i, timeout, e_i, hang_limit, stall_limit))
        for f in futs:
            outs.append(f.result())
    n_done = 0
    for o in outs:
        for ev in o["events"]:
            if _parse_events(ev, res, workload, build_name, extra):
                n_done += 1
        for a in o["aborts"]:
            res.violations.append({
                "t": "violation", "sig": "%s:%s" % (workload, a["sig"]), "case": a["case"], "seed": seed,
                "detail": {"stderr_tail": a["stderr"], "exit": a["rc"]},
                "workload": workload, "build": build_name, "extra_args": extra,
            })
        if o.get("skipped_after_repeated_abort"):
            res.add_counter("cases_skipped_after_repeated_identical_abort", o["skipped_after_repeated_abort"])
        for inc in o["incidents"]:
            inc = dict(inc)
            inc["workload"] = workload
            inc["build"] = build_name
            res.incidents.append(inc)
    res.runs.append({"workload": workload, "build": build_name, "cases": n_cases, "processes": len(ranges),
                     "wall_s": round(time.time() - t0, 1), "extra_args": extra})
    log("[run] %s/%s: %d cases in %d processes, %.1fs" % (workload, build_name, n_cases, len(ranges), time.time() - t0))


# --------------------------------------------------------------------------- verdict

def load_known():
    p = os.path.join(VERIF, "known_findings.json")
    if not os.path.exists(p):
        return []
    with open(p) as f:
        return json.load(f).get("findings", [])


def _sig_id(sig):
    return hashlib.sha1(sig.encode()).hexdigest()[:10]


def finish(prop, tier, seed, level, res, rule, required=None, assumptions=None, extra_cov=None,
           t0=None, exhaustive=None, min_distinct=2):
    """Applies known findings, writes replays and evidence, prints verdict lines, returns exit code."""
    os.makedirs(REPLAYS, exist_ok=True)
    os.makedirs(EVIDENCE, exist_ok=True)
    known = [k for k in load_known() if k.get("property") == prop and k.get("status") == "known"]
    known_sigs = {k["signature"]: k for k in known}
    by_sig = {}
    for v in res.violations:
        by_sig.setdefault(v["sig"], []).append(v)
    new_sigs = []
    known_hit = []
    for sig, vs in sorted(by_sig.items()):
        if sig in known_sigs:
            known_hit.append((sig, known_sigs[sig], len(vs)))
        else:
            new_sigs.append(sig)
    lines = []
    for sig, k, n in known_hit:
        lines.append("KNOWN-FINDING: property=%s %s [signature=%s, %d occurrence(s) this run]" %
                     (prop, k.get("what", sig), sig, n))
    replay_paths = []
    for sig in new_sigs[:10]:
        v = min(by_sig[sig], key=lambda x: (x.get("case", 0)))
        path = os.path.join(REPLAYS, "%s-%s.json" % (prop, _sig_id(sig)))
        with open(path, "w") as f:
            json.dump({"property": prop, "signature": sig, "occurrences": len(by_sig[sig]), "tier": tier,
                       "workload": v.get("workload"), "build": v.get("build"), "seed": v.get("seed", seed),
                       "case": v.get("case"), "extra_args": v.get("extra_args", []),
                       "detail": v.get("detail")}, f, ensure_ascii=False, indent=1)
        replay_paths.append(path)
        lines.append("VIOLATION property=%s replay=%s" % (prop, path))
        log("  signature: %s (%d occurrence(s))" % (sig, len(by_sig[sig])))
    inconclusive = []
    for inc in res.incidents:
        inconclusive.append("%s case %s: %s" % (inc.get("workload"), inc.get("case"), inc.get("what")))
    for name in (required or []):
        if res.counters.get(name, 0) == 0:
            inconclusive.append("required interaction counter is zero: %s" % name)
    distinct = len(res.digests)
    if distinct < min_distinct:
        inconclusive.append("only %d distinct non-trivial cases" % distinct)
    if res.evals < 1:
        inconclusive.append("no evaluation was performed")
    def _small(x, budget=6000):
        t = json.dumps(x, ensure_ascii=False)
        return x if len(t) <= budget else {"clipped_sample": t[:budget] + "…"}
    res.samples = [_small(x) for x in res.samples]
    cov = {
        "evaluations": int(res.evals),
        "distinct_nontrivial": int(distinct),
        "rule": rule,
        "samples": res.samples[:6] if res.samples else [],
        "cases_generated": int(res.cases),
        "interaction_counters": dict(sorted(res.counters.items())),
        "runs": res.runs,
        "violation_signatures": sorted(by_sig.keys()),
        "known_findings_seen": [s for s, _, _ in known_hit],
        "inconclusive_reasons": inconclusive,
    }
    if exhaustive is not None:
        cov["exhaustive"] = bool(exhaustive)
    for k, v in res.notes.items():
        cov.setdefault("notes", {})[k] = v[:8]
    if extra_cov:
        cov.update(extra_cov)
    ev = {
        "property_id": prop,
        "tier": tier,
        "seed": int(seed),
        "level": level,
        "coverage": cov,
        "assumptions": assumptions or [],
        "wall_s": round(time.time() - (t0 or time.time()), 2),
        "violations": len(new_sigs),
    }
    with open(os.path.join(EVIDENCE, "%s.json" % prop), "w") as f:
        json.dump(ev, f, ensure_ascii=False, indent=1)
    for l in lines:
        print(l)
    if new_sigs:
        print("RESULT property=%s verdict=violated distinct_signatures=%d" % (prop, len(new_sigs)))
        return 1
    if inconclusive:
        for r in inconclusive[:10]:
            print("INCONCLUSIVE property=%s reason=%s" % (prop, r))
        return 2
    print("RESULT property=%s verdict=held evaluations=%d distinct_nontrivial=%d wall_s=%.1f" %
          (prop, res.evals, distinct, ev["wall_s"]))
    return 0


def fail_inconclusive(prop, tier, seed, level, reason, t0):
    os.makedirs(EVIDENCE, exist_ok=True)
    print("INCONCLUSIVE property=%s reason=%s" % (prop, reason.splitlines()[0] if reason else "?"))
    log(reason)
    return 2


MIRI_CMD = ["cargo", "+nightly", "miri", "run", "-q", "--manifest-path", os.path.join(HARNESS, "Cargo.toml"),
            "-p", "vmon", "--no-default-features", "--features", "tag-prediction", "--"]


def miri_env(extra_flags=""):
    # leaks are not what these runs look for (the harness interns strings on purpose)
    return {"MIRIFLAGS": ("-Zmiri-disable-isolation -Zmiri-ignore-leaks " + extra_flags).strip(),
            "CARGO_TARGET_DIR": os.path.join(BUILD, "miri")}


def build_miri():
    """Compiles the pure-Rust flavour of vmon for Miri (runs zero cases)."""
    if "miri" in _built:
        return
    t0 = time.time()
    os.makedirs(os.path.join(BUILD, "tmp"), exist_ok=True)
    r = run(MIRI_CMD + ["C03", "--from", "0", "--to", "0", "--events", os.path.join(BUILD, "tmp", "miri-build.jsonl")],
            cwd=HARNESS, env=miri_env())
    if r.returncode != 0:
        raise Inconclusive("miri build failed:\n" + "\n".join(r.stdout.splitlines()[-40:]))
    _built["miri"] = True
    log("[build] miri ok (%.1fs)" % (time.time() - t0))


def run_miri(res, workload, n_cases, tier, seed, extra=None, procs=None, per_case_timeout=240.0, flags="", tag=None,
             vary_scheduler_seed=False):
    """Runs cases under Miri, one interpreter process per chunk. With vary_scheduler_seed every
    process gets its own -Zmiri-seed (thread scheduling and address randomisation differ)."""
    build_miri()
    per_chunk = None
    if vary_scheduler_seed:
        per_chunk = lambda i: miri_env("%s -Zmiri-seed=%d" % (flags, seed * 1000 + i))
    run_workload(res, "miri", workload, n_cases, tier, seed, extra=extra, chunks=procs or min(n_cases, NCPU),
                 per_case_timeout=per_case_timeout, env=miri_env(flags), binary=MIRI_CMD, tag=tag or ("%s-miri" % workload),
                 hang_limit=3600, env_per_chunk=per_chunk, stall_limit=3600)
