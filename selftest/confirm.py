#!/usr/bin/env python3
"""selftest/confirm.py <worktree> <mutation-dir-name> <seeded-id>

Independently confirms a seeded change delivered by a sub-agent in <worktree>/mutation/<name>/:
  1. the patch applies to a clean checkout,
  2. the existing test suite still passes with it (cargo test --workspace --no-fail-fast --offline),
  3. the demonstration fails with it and
  4. passes without it;
then copies patch, demo and a meta.json into /verif/seeded/<seeded-id>/.
The demo placement/commands are taken from demo/RUN.md (first shell block: mkdir/cp lines and the
first cargo/bash command)."""

import json
import os
import re
import shutil
import subprocess
import sys
import time

VERIF = os.path.dirname(os.path.dirname(os.path.abspath(__file__)))


def sh(cmd, cwd, timeout=3600):
    env = dict(os.environ)
    env["CARGO_NET_OFFLINE"] = "true"
    r = subprocess.run(cmd, cwd=cwd, shell=True, executable='/bin/bash', stdout=subprocess.PIPE, stderr=subprocess.STDOUT, text=True,
                       errors="replace", timeout=timeout, env=env)
    return r.returncode, r.stdout


def parse_run_md(path, wt):
    """Setup lines (mkdir / cp) and the first demo command (cargo test / bash / sh / ./script),
    taken in order from every line of RUN.md (fenced or indented code, with or without `$ `)."""
    setup, demo = [], None
    for line in open(path).read().splitlines():
        l = line.strip()
        l = re.sub(r"^[$>]\s+", "", l)
        l = l.strip("`")
        if not l or l.startswith("#") or l.startswith("cd ") or l.startswith("git "):
            continue
        l = re.sub(r"^\(cd [^;&]+(;|&&)\s*", "", l)
        if demo is None and (l.startswith("mkdir ") or l.startswith("cp ")):
            setup.append(l.split("   #")[0].rstrip())
        elif demo is None and re.match(r"^([A-Z_]+=\S+ )*(cargo (test|run)|bash |sh |\./)", l):
            demo = l.split("   #")[0].split("  #")[0].rstrip()
            demo = re.sub(r"\s*;\s*echo .*$", "", demo)
            break
    return setup, demo


def main():
    wt, name, sid = sys.argv[1], sys.argv[2], sys.argv[3]
    prop = sys.argv[4] if len(sys.argv) > 4 else os.path.basename(wt)
    mdir = os.path.join(wt, "mutation", name)
    patch = os.path.join(mdir, "patch.diff")
    res = {"id": sid, "property": prop, "worktree": wt, "mutation": name, "steps": []}

    def step(what, ok, out=""):
        res["steps"].append({"what": what, "ok": bool(ok), "tail": out[-1500:] if not ok else ""})
        print("[%s] %s: %s" % (sid, what, "ok" if ok else "FAILED"), flush=True)
        return ok

    sh("git checkout -q -- . && git clean -fdq -e mutation -e target", wt)
    rc, out = sh("git apply --check %s" % patch, wt)
    if not step("patch applies to clean checkout", rc == 0, out):
        return finish(res, False)
    setup, demo = parse_run_md(os.path.join(mdir, "demo", "RUN.md"), wt)
    res["demo_setup"] = setup
    res["demo_cmd"] = demo
    if not demo:
        step("RUN.md parsed", False, "no demo command found")
        return finish(res, False)
    # 2. suite with mutation (no demo files in the tree)
    sh("git apply %s" % patch, wt)
    t0 = time.time()
    rc, out = sh("cargo test --workspace --no-fail-fast --offline 2>&1", wt)
    failed = re.search(r"test result: FAILED|error(\[E\d+\])?:|could not compile", out)
    n_pass = sum(int(x) for x in re.findall(r"test result: ok\. (\d+) passed", out))
    res["suite_with_mutation"] = {"passed": n_pass, "seconds": round(time.time() - t0)}
    if not step("test suite passes with the mutation (%d tests/doctests passed)" % n_pass, rc == 0 and not failed and n_pass >= 94, out):
        sh("git checkout -q -- .", wt)
        return finish(res, False)
    # 3. demo with mutation
    for l in setup:
        sh(l, wt)
    rc, out = sh(demo + " 2>&1 | tail -40; exit ${PIPESTATUS[0]}", wt)
    ok3 = rc != 0 and not re.search(r"could not compile|error\[E", out)
    res["demo_with_mutation_exit"] = rc
    step("demo FAILS with the mutation (exit %d)" % rc, ok3, out)
    # 4. demo without mutation
    sh("git checkout -q -- .", wt)
    rc, out = sh(demo + " 2>&1 | tail -40; exit ${PIPESTATUS[0]}", wt)
    res["demo_without_mutation_exit"] = rc
    ok4 = step("demo PASSES on the unmodified tree (exit %d)" % rc, rc == 0, out)
    sh("git checkout -q -- . && git clean -fdq -e mutation -e target", wt)
    return finish(res, ok3 and ok4, mdir)


def finish(res, ok, mdir=None):
    res["confirmed"] = bool(ok)
    out = os.path.join(os.path.dirname(res["worktree"].rstrip("/")), "confirm-%s.json" % res["id"])
    json.dump(res, open(out, "w"), indent=1)
    if ok and mdir:
        dst = os.path.join(VERIF, "seeded", res["id"])
        shutil.rmtree(dst, ignore_errors=True)
        os.makedirs(dst)
        shutil.copy(os.path.join(mdir, "patch.diff"), dst)
        shutil.copytree(os.path.join(mdir, "demo"), os.path.join(dst, "demo"))
        if os.path.exists(os.path.join(mdir, "README.md")):
            shutil.copy(os.path.join(mdir, "README.md"), os.path.join(dst, "AGENT_README.md"))
        meta = {
            "id": res["id"],
            "property": res["property"],
            "origin": "fresh sub-agent given only the property record and a scratch worktree of /repo",
            "what_it_needs_to_manifest": "see AGENT_README.md",
            "confirmed_by_me": {
                "patch_applies": True,
                "test_suite_with_mutation": "cargo test --workspace --no-fail-fast --offline: %d tests/doctests passed, 0 failed" % res["suite_with_mutation"]["passed"],
                "demo_command": res["demo_cmd"],
                "demo_setup": res["demo_setup"],
                "demo_with_mutation_exit": res["demo_with_mutation_exit"],
                "demo_without_mutation_exit": res["demo_without_mutation_exit"],
            },
            "checks_run": [],
        }
        json.dump(meta, open(os.path.join(dst, "meta.json"), "w"), indent=1, ensure_ascii=False)
    print("[%s] confirmed=%s" % (res["id"], ok), flush=True)
    return 0 if ok else 1


if __name__ == "__main__":
    sys.exit(main())
