#!/bin/bash
# usage: selftest/mutant.sh [-R] <patch> <PROP> [<PROP> ...]
# Applies <patch> to /repo's working tree (with -R: reverse-applies it), runs the quick check of each
# property, prints one line per check, and ALWAYS restores /repo afterwards.
set -u
REV=""
if [ "$1" = "-R" ]; then REV="-R"; shift; fi
PATCH="$1"; shift
cd /verif
if ! git -C /repo diff --quiet; then echo "refusing: /repo has uncommitted changes"; exit 3; fi
if ! git -C /repo apply $REV "$PATCH"; then echo "patch does not apply"; exit 3; fi
trap 'git -C /repo checkout -q -- . ; git -C /repo clean -fdq' EXIT
for P in "$@"; do
  T0=$(date +%s)
  OUT=$(./check "$P" --tier "${TIER:-quick}" 2>.build/mutant-$P.err)
  RC=$?
  T1=$(date +%s)
  NS=$(echo "$OUT" | grep -c '^VIOLATION')
  echo "MUTANT $(basename $(dirname $PATCH))/$(basename $PATCH) $REV check=$P exit=$RC violations=$NS time=$((T1-T0))s"
  grep "signature:" .build/mutant-$P.err | head -4
  if [ $RC -eq 2 ]; then echo "$OUT" | grep INCONCLUSIVE | head -3; tail -5 .build/mutant-$P.err; fi
done
