#!/usr/bin/env python3
"""Regenerates the seeded-change table in DESIGN.md from seeded/*/meta.json."""
import glob, json, os, re
V = os.path.dirname(os.path.dirname(os.path.abspath(__file__)))
rows = []
for f in sorted(glob.glob(os.path.join(V, "seeded", "*", "meta.json"))):
    m = json.load(open(f))
    d = os.path.dirname(f)
    files = sorted(set(re.findall(r"^\+\+\+ b/(.*)$", open(os.path.join(d, "patch.diff")).read(), re.M)))
    title = m.get("summary")
    if not title:
        rd = os.path.join(d, "AGENT_README.md")
        title = open(rd).read().strip().splitlines()[0].lstrip("# ").strip() if os.path.exists(rd) else ""
        title = re.sub(r"^C\d\d\s*[/—-]+\s*[Mm]utation\s+[AB]\s*[:—-]*\s*", "", title)
    runs = m.get("checks_run", [])
    det = []
    for c in runs:
        if c["exit"] == 1:
            sig = (c["signatures"][0].split(" (")[0] if c["signatures"] else "")
            det.append("%s %s: `%s`" % (c["check"], c["tier"], sig))
    miss = ["%s %s (exit %d)" % (c["check"], c["tier"], c["exit"]) for c in runs if c["exit"] != 1]
    fp = m.get("first_pass")
    if fp is None:
        first = "(wave 1)"
    else:
        first = "; ".join("%s: %s" % (c["check"], "caught" if c["exit"] == 1 else "MISSED") for c in fp)
    rows.append("| %s | %s | %s | %s | %s | %s |" % (m["id"], ", ".join(os.path.basename(x) for x in files), title.replace("|", "\\|")[:150],
                                                   first, "; ".join(det) if det else "—", "; ".join(miss) if miss else ""))
table = "| id | files | change | checks as committed before the change was known | caught now by (first signature) | not caught by |\n|---|---|---|---|---|---|\n" + "\n".join(rows)
p = os.path.join(V, "DESIGN.md")
s = open(p).read()
if "SEEDED_TABLE_PLACEHOLDER" in s:
    s = s.replace("SEEDED_TABLE_PLACEHOLDER", "<!-- SEEDED_TABLE_BEGIN -->\n" + table + "\n<!-- SEEDED_TABLE_END -->")
else:
    s = re.sub(r"<!-- SEEDED_TABLE_BEGIN -->.*<!-- SEEDED_TABLE_END -->", "<!-- SEEDED_TABLE_BEGIN -->\n" + table.replace("\\", "\\\\") + "\n<!-- SEEDED_TABLE_END -->", s, flags=re.S)
open(p, "w").write(s)
print("%d seeded changes in table" % len(rows))
