#!/usr/bin/env python3
"""selftest/run_seeded.py [--tier quick|thorough] [--only ID,ID] [--checks own|PROP,PROP]

Runs the registered checks against every seeded change under /verif/seeded/<id>/:
applies patch.diff to /repo's working tree, runs ./check <property> (the change's own property by
default), records exit code and violation signatures in seeded/<id>/meta.json and ALWAYS restores
/repo. Serial by construction (the checks rebuild from /repo itself)."""

import json
import os
import subprocess
import sys
import time

VERIF = os.path.dirname(os.path.dirname(os.path.abspath(__file__)))


def sh(cmd, **kw):
    return subprocess.run(cmd, shell=True, stdout=subprocess.PIPE, stderr=subprocess.STDOUT, text=True, errors="replace", **kw)


def main():
    tier = "quick"
    only = None
    checks = "own"
    a = sys.argv[1:]
    while a:
        if a[0] == "--tier":
            tier = a[1]
        elif a[0] == "--only":
            only = a[1].split(",")
        elif a[0] == "--checks":
            checks = a[1]
        a = a[2:]
    ids = sorted(d for d in os.listdir(os.path.join(VERIF, "seeded")) if os.path.isdir(os.path.join(VERIF, "seeded", d)))
    if only:
        ids = [i for i in ids if i in only]
    if sh("git -C /repo diff --quiet").returncode != 0:
        print("refusing: /repo has uncommitted changes")
        return 3
    summary = []
    for sid in ids:
        d = os.path.join(VERIF, "seeded", sid)
        meta = json.load(open(os.path.join(d, "meta.json")))
        props = [meta["property"]] if checks == "own" else checks.split(",")
        r = sh("git -C /repo apply %s" % os.path.join(d, "patch.diff"))
        if r.returncode != 0:
            print("%s: patch does not apply: %s" % (sid, r.stdout[-300:]))
            continue
        try:
            for p in props:
                t0 = time.time()
                r = subprocess.run(["./check", p, "--tier", tier], cwd=VERIF, stdout=subprocess.PIPE, stderr=subprocess.PIPE, text=True, errors="replace")
                sigs = [l.split("signature:")[1].strip() for l in r.stderr.splitlines() if "signature:" in l]
                rec = {"check": p, "tier": tier, "exit": r.returncode, "violation_lines": sum(1 for l in r.stdout.splitlines() if l.startswith("VIOLATION")),
                       "signatures": sigs[:8], "seconds": round(time.time() - t0), "repo_head": sh("git -C /repo rev-parse --short HEAD").stdout.strip(),
                       "verif_head": sh("git -C %s rev-parse --short HEAD" % VERIF).stdout.strip()}
                if r.returncode == 2:
                    rec["inconclusive"] = [l for l in r.stdout.splitlines() if l.startswith("INCONCLUSIVE")][:3] + r.stderr.splitlines()[-3:]
                meta["checks_run"] = [c for c in meta.get("checks_run", []) if not (c["check"] == p and c["tier"] == tier)] + [rec]
                print("%s check=%s exit=%d %ss %s" % (sid, p, r.returncode, rec["seconds"], "; ".join(sigs[:3])), flush=True)
                summary.append((sid, p, r.returncode))
        finally:
            sh("git -C /repo checkout -q -- . && git -C /repo clean -fdq")
        meta["detected_by"] = sorted(set(c["check"] for c in meta["checks_run"] if c["exit"] == 1))
        json.dump(meta, open(os.path.join(d, "meta.json"), "w"), indent=1, ensure_ascii=False)
    missed = [s for s in summary if s[2] != 1]
    print("SUMMARY: %d runs, %d detected, not detected: %s" % (len(summary), len(summary) - len(missed), missed))
    return 0


if __name__ == "__main__":
    sys.exit(main())
