#!/usr/bin/env python3
"""Writes the sub-agent prompts of a seeding wave (property record + titles of the ideas used in earlier waves; nothing about the checks)."""
import json,re
props={}
for l in open('/verif/properties.jsonl'):
    p=json.loads(l); props[p['id']]=p
base='''You are helping test a verification framework by seeding realistic bugs. You work ONLY inside the scratch git worktree {WT} (a checkout of the Rust project daac-tools/vaporetto, a pointwise-prediction Japanese word tokenizer: crates vaporetto, vaporetto_rules, vaporetto_tantivy and the CLIs predict/train/evaluate/manipulate_model/convert_kytea_model). Do NOT read or touch /verif or /repo, and do not look at any other directory under /tmp. The sandbox is offline: use `cargo ... --offline`.

Here is a semantic property of the project that is supposed to hold (JSON record):

{PROPERTY}

Your task: produce TWO independent source changes ("mutation A" and "mutation B", different mechanisms / different code sites) to the project, each of which
  1. BREAKS this property (for some input / configuration / history the property quantifies over),
  2. still compiles, and
  3. still passes the existing test suite unchanged: `cd {WT} && cargo test --workspace --no-fail-fast --offline` (94 unit tests + doctests) must pass with the change applied.

This is a EIGHTH round. The following ideas were already used for this property in earlier rounds; do NOT repeat them or variants of them, and choose code sites (functions) that none of them touches whenever possible:
{USED}

Mutation A should be the SUBTLEST change you can devise inside the code that directly implements this property. Mutation B should be a change at a site that seems to belong to a DIFFERENT concern (a helper, a shared data structure, a dependency wrapper, another crate of the workspace, a conversion, an error path, the order of two initialisations, a default value, a feature-gated alternative implementation) but that nonetheless breaks THIS property for some rare input. For both: the bug must be real, but it should manifest only under a narrow, specific condition that ordinary use and randomized testing with small or medium-sized random inputs would rarely or never hit. Ideas for trigger conditions: exact equality of two quantities that are usually different (scores, lengths, counts, window sizes, byte and character counts); the first or last element only; an element that appears exactly twice; a value that is zero only after quantisation or only after a sum cancels; sequences of three or more API calls in an unusual order; reuse of an object after an error; text whose characters change type or byte width under normalisation; specific positions (index 0, index len-1, a multiple of some block size); very large OR degenerate (empty / single) collections in exactly one dimension; a rarely used public entry point; a non-default cargo feature set; an I/O object with unusual but legal behaviour. The change should still look like a plausible programmer mistake or "optimisation" in a code review. Do not just delete functionality wholesale, do not add randomness or time dependence, and do not edit tests.

For each mutation also write a DEMONSTRATION: a small Rust integration test (e.g. a file to be copied under {WT}/vaporetto/tests/ or the tests/ directory of another crate of the workspace) or a shell script driving the CLI binaries that FAILS (assertion / non-zero exit) with the mutation applied and PASSES on the unmodified tree. Verify both directions yourself.

Deliver, inside {WT}/mutation/ :
  - A/patch.diff   (output of `git diff` for mutation A only, relative to the unmodified HEAD; must apply with `git apply` on a clean checkout; must NOT contain the demo files)
  - A/demo/...     (the demonstration files, with A/demo/RUN.md that contains, in a fenced sh code block, exactly: the `mkdir -p` / `cp` lines that place the demo files (paths relative to {WT}) and then ONE command line that runs the demo and exits non-zero on failure, e.g. `cargo test -p vaporetto --offline --test my_demo`; no `; echo` suffixes)
  - A/README.md    (first line: a one-sentence title of the change; then what was changed, why it breaks the property, exactly what it needs in order to manifest and how rare that is, and the commands you ran with their outcome: test suite with mutation = pass, demo with mutation = fail, demo without = pass)
  - B/... likewise.
When you are done leave the worktree's tracked source files UNMODIFIED (git checkout -- . ; untracked files under mutation/ stay; remove demo copies you placed in tests/ directories). Keep builds small (use `-p <crate>` where you can); each worktree has its own target directory. Work autonomously; do not ask questions. Finish with a short summary of the two mutations (files touched, trigger condition, one sentence each).
'''
for i in range(1,21):
    pid='C%02d'%i
    used=[]
    for m in ['A','B','A2','B2','A3','B3','A4','B4','A5','B5','A6','B6','A7','B7']:
        rd='/verif/seeded/%s-%s/AGENT_README.md'%(pid,m)
        pd='/verif/seeded/%s-%s/patch.diff'%(pid,m)
        files=sorted(set(re.findall(r'^\+\+\+ b/(.*)$', open(pd).read(), re.M)))
        txt=open(rd).read()
        title=txt.strip().splitlines()[0].lstrip('# ').strip()
        body=' '.join(l for l in txt.splitlines()[1:] if l.strip() and not l.startswith('#') and not l.startswith('```'))
        used.append('  - (%s) %s. %s' % (', '.join(files), title, ' '.join(body.split())[:200]))
    prop={k:props[pid][k] for k in ('id','title','statement','quantifier','why_tests_cant','anchors')}
    open('/tmp/wt8/%s.prompt.txt'%pid,'w').write(base.replace('{WT}','/tmp/wt8/'+pid).replace('{PROPERTY}',json.dumps(prop,ensure_ascii=False,indent=1)).replace('{USED}','\n'.join(used)))
print(len(open('/tmp/wt8/C06.prompt.txt').read()))
